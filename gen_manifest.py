#!/usr/bin/env python3
# Generates MANIFEST.json from the table below (kept in one place so that the
# manifest is always valid and in step with the monitors that exist).
import json, os, subprocess
V='/verif'
hooks_commits = subprocess.run(['git','-C','/repo','log','--format=%H %s','--grep=^verif hooks'],capture_output=True,text=True).stdout.strip().splitlines()
checks = {}
def chk(pid, level, technique, text, note, design, engine='monitors'):
    checks[pid] = dict(property_id=pid,
        quick_cmd='./check.sh %s quick'%pid, thorough_cmd='./check.sh %s thorough'%pid,
        evidence_file='/verif/evidence/%s.json'%pid,
        replay_cmd_template='./check.sh %s replay {path}'%pid,
        engine=engine,
        level_claimed=dict(category=level, text=text, design_ref=design),
        level_note=note, technique=technique)

exec(open(os.path.join(V,'manifest_checks.py')).read())

props=[json.loads(l)['id'] for l in open(os.path.join(V,'properties.jsonl'))]
na=[]
for p in props:
    if p not in checks or not os.path.isdir(os.path.join(V,'monitors',p.lower())):
        checks.pop(p,None)
        na.append(dict(property_id=p, reason=NA_REASON.get(p,'monitor not built yet in this phase; runtime monitoring applies (see DESIGN.md section 5) - will be claimed once its check is committed')))
m=dict(version=1,
  setup_cmd='./setup.sh',
  hooks=dict(guard='verif', enable='go build -tags verif (check.sh passes -tags verif to every monitor build; the tag adds knx/verif_hooks.go)',
     baseline_off_cmd="cd /repo && GOFLAGS=-mod=mod GOPROXY=off GOSUMDB=off GOTOOLCHAIN=local go test -vet=off -count=1 -timeout 25m ./...",
     source_commits=[l.split()[0] for l in hooks_commits], add_only=True),
  engines=[dict(name='monitors', path='/verif/monitors', serves_properties=sorted(checks), kind_free_text='one Go program per property: runs the real library (built from /repo working tree, tag verif) under generated/hostile workloads; oracles are reference models, differential decoders, history checkers (porcupine), the Go race detector and goroutine census; parent process attributes crashes to the last logged case')],
  checks=[checks[p] for p in props if p in checks],
  notes='Technique family: runtime monitoring and sanitizers. Known findings and fixed defects: /verif/known_findings.json. Seeded changes used to validate the monitors: /verif/seeded/.',
  not_applicable=na)
json.dump(m,open(os.path.join(V,'MANIFEST.json'),'w'),indent=1)
print('checks',len(m['checks']),'not_applicable',len(na))
