#!/bin/bash
# Offline setup: warms the Go build cache by building every monitor once.
set -u
cd "$(dirname "$0")"
export GOFLAGS=-mod=mod GOPROXY=off GOSUMDB=off GOTOOLCHAIN=local
mkdir -p bin evidence/tmp replay
rc=0
for d in monitors/*/; do
  id=$(basename "$d")
  RACEFLAG=""; [ -f "$d/RACE" ] && RACEFLAG="-race"
  go build -tags verif $RACEFLAG -o "bin/mon_$id" "./$d" || rc=1
done
exit $rc
