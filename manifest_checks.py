NA_REASON = {}
chk('C18','exploration','reference-predicate monitor over exhaustive enumeration',
    'Runs the real parsers/formatters/constructors over the complete 16-bit address space (both kinds), every component tuple of the documented ranges widened by 3 (negatives, zero-padded and signed spellings), a grammar of malformed strings and all 2^24 constructor argument tuples, comparing each result with an independently written acceptance predicate and closed forms. Exhaustive on the finite sub-spaces, sampled on arbitrary strings.',
    'Trusted: the reference predicate in monitors/c18 (written from the documented forms; strconv.Atoi decimal syntax taken as the meaning of %d). Arbitrary malformed strings are sampled, not exhausted.',
    'DESIGN.md 5/C18')
chk('C06','exploration','round-trip monitor (decode->encode->decode) with reference re-encoding table',
    'Runs the real Unpack/Pack of every registered datapoint type over exhaustive 1-/2-/3-byte payload spaces, all field combinations (quick) or all 2^24 payloads (thorough) of the 4-byte types, stratified 2^14 / 2^22 encodings per 5-byte type plus complete 2^32 sweeps of 12.001, 13.001 and 14.000 (thorough), and structured samples of the longer types; the oracle demands bitwise value stability and, for exact formats, byte identity against an independent mask/replacement table. Drifts are classified by a narrow witness predicate; only the two recorded known findings are tolerated.',
    'Trusted: internal/spec/dpt.go (lengths, reserved-bit masks, documented replacements). 5-byte types other than the three swept ones, and 7-/15-byte/variable types, are sampled.',
    'DESIGN.md 5/C06')
chk('C07','exploration','reference-model monitor over generated values (accuracy, monotonicity, saturation, layout, self-decode)',
    'Packs generated Go values of every registered type with the real encoder and decodes them with the real decoder: float types over log-uniform magnitudes, every bound +-3 ulps, all 16-bit-float exponent-switch neighbours and every step/midpoint of the scaled integers; 8/16-bit integer types exhaustively; struct types over grids with out-of-range fields; strings over ASCII/Latin-1/BMP/astral/invalid UTF-8. Oracle = independent DPT table: error <= one quantisation step, sorted-sample monotonicity, saturation equals the bound\'s image, prescribed length/leading octet/layout, accepted by own decoder.',
    'Trusted: internal/spec/dpt.go ranges/steps. float32 domain is sampled (boundary-directed), not exhausted.',
    'DESIGN.md 5/C07')
chk('C08','exploration','totality/range monitor over enumerated and sampled byte strings',
    'Feeds every registered type\'s real decoder all byte strings of length 0..3 over a boundary alphabet, sampled longer ones, exhaustive correct-length payloads for types up to 3 bytes, all 2^21 field combinations (quick) / 2^24 payloads (thorough) of 10.001, 11.001 and 232.600, all 2^16 flag/reserved patterns of 242.600 and 251.600; asserts no panic, wrong length rejected, decoded value inside the documented range, String()/Unit() total.',
    'Trusted: documented ranges in internal/spec/dpt.go. Payloads of 5 bytes and more are sampled.',
    'DESIGN.md 5/C08')
chk('C19','exploration','reflection + source-parse monitor; Go race detector on 16 goroutines',
    'Enumerates every registry name (syntax, uniqueness, Produce, dynamic type name, zero value), parses /repo/knx/dpt for every exported DPT_* type with the Datapoint method set and checks reachability, probes unknown names, checks instance independence sequentially and under 16 concurrent goroutines with the race detector (any report is a violation).',
    'Trusted: go/parser view of the package source; race detector sees executed paths only. Exhaustive over names and source types.',
    'DESIGN.md 5/C19')
chk('C02','exploration','differential round-trip monitor: library codec vs independent byte-level builder; decode-encode-decode stability on mutated encodings',
    'Draws abstract frames for every (service x cEMI kind) cell with corner-biased field values, encodes them with the real encoder and with an independently written KNXnet/IP + cEMI builder, demands byte equality, then decodes with the real decoder and demands canonical equality of the value, same service and message code, no error and n <= len. Valid encodings with substituted field bytes, reordered DIBs and CRD variations are decoded, re-encoded and decoded again and must be stable. quick 28 cells x 4000 values (+2 mutations each), thorough 28 x 300000.',
    'Trusted: internal/spec/frames.go (layout transcription), canonical value generation. Sampled, not exhaustive; decode-only parts (UnknownBlocks) excluded as stated in DESIGN.md.',
    'DESIGN.md 5/C02')
chk('C11','exploration','reference-layout monitor: independent cEMI L_Data codec, exhaustive sub-spaces, closed-form helpers',
    'Compares cemi.Pack byte for byte with an independent transcription of the L_Data layout and cemi.Unpack of that layout with the value: exhaustively all 2^16 control-octet pairs x 3 message codes, the full APCI x sequence x numbered x unit-kind product, every payload length 1..254 and info length 0..255, corner address pairs, plus random frames; the helper constructors/accessors are compared with closed forms over 0..255 and the flag constants with the specified bit positions.',
    'Trusted: internal/spec/frames.go (EncodeCemi/ParseLData). Exhaustive on the listed finite sub-spaces, sampled on their product.',
    'DESIGN.md 5/C11')
