NA_REASON = {}
chk('C18','exploration','reference-predicate monitor over exhaustive enumeration',
    'Runs the real parsers/formatters/constructors over the complete 16-bit address space (both kinds), every component tuple of the documented ranges widened by 3 (negatives, zero-padded and signed spellings), a grammar of malformed strings and all 2^24 constructor argument tuples, comparing each result with an independently written acceptance predicate and closed forms. Exhaustive on the finite sub-spaces, sampled on arbitrary strings.',
    'Trusted: the reference predicate in monitors/c18 (written from the documented forms; strconv.Atoi decimal syntax taken as the meaning of %d). Arbitrary malformed strings are sampled, not exhausted.',
    'DESIGN.md 5/C18')
