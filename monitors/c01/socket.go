package main

// Socket oracle of C01: a loopback peer pushes windows of datagrams
// (long garbage-rich valid frame, malformed frames derived from it, a short
// unique marker frame) through a real DialTunnelUDP socket, a real
// ListenRouter socket and, as a byte stream, a real DialTunnelTCP socket.
// What surfaces on Inbound() must be exactly the datagrams the direct decoder
// accepts from an exact-capacity slice, in order, with equal values — so a
// truncated frame "completed" by the remnants of the previous datagram in the
// receiver's buffer is caught — and every marker must arrive.

import (
	"encoding/hex"
	"fmt"
	"math/rand"
	"net"
	"os"
	"time"

	"github.com/vapourismo/knx-go/knx/knxnet"

	"verif/internal/gen"
	"verif/internal/libx"
	"verif/internal/mon"
	"verif/internal/spec"
)

var nWindows, nDatagrams, nSurfaced, nDropped, nMarkers int64

// expect decodes b from an exact-capacity slice.
func expect(b []byte) (string, bool) {
	b1 := make([]byte, len(b))
	copy(b1, b)
	var s knxnet.Service
	var err error
	if p := mon.Guard(func() { _, err = knxnet.Unpack(b1, &s) }); p != "" || err != nil || s == nil {
		return "", false
	}
	return libx.Dump(s), true
}

func marker(id int) []byte {
	f := &spec.Frame{Service: spec.SvcConnStateRes, Channel: uint8(id >> 8), Status: uint8(id)}
	return f.Encode()
}

// longFrame draws a long valid frame whose tail can "complete" a truncation.
func longFrame(rng *rand.Rand) *spec.Frame {
	switch rng.Intn(4) {
	case 0:
		return gen.Frame(rng, spec.SvcDescrRes, -1)
	case 1:
		return gen.Frame(rng, spec.SvcSearchRes, -1)
	case 2:
		f := gen.Frame(rng, spec.SvcRoutingInd, 1+rng.Intn(2))
		f.Cemi.TPDU = spec.TPDU{Cmd: 2, Data: gen.Bytes(rng, 100+rng.Intn(150))}
		f.Cemi.TPDU.Data[0] &= 0x3f
		return f
	default:
		f := gen.Frame(rng, spec.SvcTunnelReq, 1+rng.Intn(2))
		f.Cemi.Info = gen.Bytes(rng, 20+rng.Intn(200))
		f.Cemi.TPDU = spec.TPDU{Cmd: 2, Data: gen.Bytes(rng, 50+rng.Intn(200))}
		f.Cemi.TPDU.Data[0] &= 0x3f
		return f
	}
}

// malformed derives 1..3 datagrams from a long frame that are (mostly)
// malformed: truncations, shrunk / grown length octets, random bodies.
func malformed(rng *rand.Rand, f *spec.Frame, keepHeaderExact bool) [][]byte {
	F := f.Encode()
	var out [][]byte
	n := 1 + rng.Intn(3)
	for i := 0; i < n; i++ {
		var d []byte
		switch rng.Intn(5) {
		case 0, 1: // truncation
			k := 6 + rng.Intn(len(F)-6)
			d = append([]byte(nil), F[:k]...)
		case 2: // length octet
			offs := f.LenOffsets()
			o := offs[rng.Intn(len(offs))]
			d = append([]byte(nil), F...)
			if o >= 6 {
				d[o] = lenValues(F[o])[rng.Intn(8)]
				if rng.Intn(2) == 0 && o+1 < len(d) {
					d = d[:o+1+rng.Intn(len(d)-o-1)]
				}
			} else {
				d = d[:6+rng.Intn(len(d)-6)]
			}
		case 3: // random body under the same service
			d = spec.Header(f.Service, gen.Bytes(rng, rng.Intn(30)))
		default: // odd DIB sequence
			dibFuzz(rng, func(b, _ []byte, how string) {
				if d == nil && len(b) >= 6 && b[0] == 6 {
					d = append([]byte(nil), b...)
				}
			})
		}
		if keepHeaderExact {
			if len(d) < 6 {
				continue
			}
			d[0], d[1] = 6, 0x10
			d[4], d[5] = byte(len(d)>>8), byte(len(d))
		}
		if len(d) > 1024 {
			d = d[:1024]
		}
		out = append(out, d)
	}
	return out
}

type window struct {
	datagrams [][]byte
	expected  []string // dumps of what must surface, in order
	markerDmp string
}

func buildWindow(rng *rand.Rand, id int, tcp bool) window {
	var w window
	lf := longFrame(rng)
	w.datagrams = append(w.datagrams, lf.Encode())
	w.datagrams = append(w.datagrams, malformed(rng, lf, tcp)...)
	if rng.Intn(3) == 0 {
		w.datagrams = append(w.datagrams, gen.Frame(rng, spec.Services[rng.Intn(len(spec.Services))], -1).Encode())
		w.datagrams = append(w.datagrams, malformed(rng, lf, tcp)...)
	}
	m := marker(id)
	w.datagrams = append(w.datagrams, m)
	for _, d := range w.datagrams {
		if dmp, ok := expect(d); ok {
			w.expected = append(w.expected, dmp)
		}
	}
	w.markerDmp, _ = expect(m)
	return w
}

// readWindow reads from inbound until the marker's value or a timeout.
func readWindow(in <-chan knxnet.Service, markerDmp string, bound time.Duration) (got []string, closed bool, timedOut bool) {
	t := time.NewTimer(bound)
	defer t.Stop()
	for {
		select {
		case s, ok := <-in:
			if !ok {
				return got, true, false
			}
			d := libx.Dump(s)
			got = append(got, d)
			if d == markerDmp {
				return got, false, false
			}
		case <-t.C:
			return got, false, true
		}
	}
}

func hexList(ds [][]byte) []string {
	var out []string
	for _, d := range ds {
		out = append(out, hex.EncodeToString(d))
	}
	return out
}

func sameSeq(a, b []string) bool {
	if len(a) != len(b) {
		return false
	}
	for i := range a {
		if a[i] != b[i] {
			return false
		}
	}
	return true
}

func shorten(ss []string) []string {
	var out []string
	for _, s := range ss {
		if len(s) > 200 {
			s = s[:200] + "…"
		}
		out = append(out, s)
	}
	return out
}

// judge compares what surfaced with what the direct oracle accepts.
func judge(kind string, w window, got []string, closed, timedOut bool) bool {
	nWindows++
	nDatagrams += int64(len(w.datagrams))
	nSurfaced += int64(len(got))
	nDropped += int64(len(w.datagrams) - len(w.expected))
	cs := map[string]interface{}{"socket": kind, "datagrams": hexList(w.datagrams), "expected_to_surface": shorten(w.expected), "surfaced": shorten(got)}
	attrs := map[string]string{"socket": kind}
	if closed {
		r.Violate("socket.receiver-ended", attrs, cs, "%s: the receiver ended (Inbound closed) after a malformed frame; later well-formed frames are lost", kind)
		return false
	}
	if timedOut {
		r.Violate("socket.marker-lost", attrs, cs, "%s: the well-formed marker frame sent after malformed frames did not surface within the bound (surfaced %d of %d expected)", kind, len(got), len(w.expected))
		return false
	}
	nMarkers++
	if !sameSeq(got, w.expected) {
		r.Violate("socket.surfaced", attrs, cs, "%s: frames surfaced on Inbound differ from what an exact-length decode of each datagram accepts (stale buffer bytes completed a frame, a malformed frame was forwarded, or a good frame was dropped): got %d, expected %d", kind, len(got), len(w.expected))
		return false
	}
	r.DistinctStr(kind + fmt.Sprint(hexList(w.datagrams)))
	if r.WantSample() && nWindows%7 == 3 {
		r.Sample(map[string]interface{}{"kind": "socket:" + kind, "datagram_sizes": sizes(w.datagrams), "surfaced": len(got), "dropped_as_malformed": len(w.datagrams) - len(w.expected)})
	}
	return true
}

func sizes(ds [][]byte) []int {
	var o []int
	for _, d := range ds {
		o = append(o, len(d))
	}
	return o
}

func udpTunnel(rng *rand.Rand, n int) {
	pc, err := net.ListenUDP("udp4", &net.UDPAddr{IP: net.IPv4(127, 0, 0, 1)})
	if err != nil {
		r.Inconclusive("udp: listen: " + err.Error())
		return
	}
	defer pc.Close()
	sock, err := knxnet.DialTunnelUDP(pc.LocalAddr().String())
	if err != nil {
		r.Inconclusive("udp: dial: " + err.Error())
		return
	}
	defer sock.Close()
	sock.Send(&knxnet.ConnStateRes{})
	buf := make([]byte, 2048)
	pc.SetReadDeadline(time.Now().Add(5 * time.Second))
	_, client, err := pc.ReadFromUDP(buf)
	if err != nil {
		r.Inconclusive("udp: no hello: " + err.Error())
		return
	}
	for i := 0; i < n; i++ {
		w := buildWindow(rng, 0x4000+i, false)
		if rng.Intn(5) == 0 {
			// an empty datagram in the middle
			w.datagrams = append(w.datagrams[:1], append([][]byte{{}}, w.datagrams[1:]...)...)
		}
		r.Crumb("C01 udp window=%d datagrams=%v", i, hexList(w.datagrams))
		r.Eval(1)
		for _, d := range w.datagrams {
			if _, err := pc.WriteToUDP(d, client); err != nil {
				r.Inconclusive("udp: write: " + err.Error())
				return
			}
		}
		got, closed, to := readWindow(sock.Inbound(), w.markerDmp, 5*time.Second)
		if !judge("udp-tunnel", w, got, closed, to) && (closed || to) {
			return
		}
	}
}

func routerSock(rng *rand.Rand, n int) {
	pid := os.Getpid()
	group := fmt.Sprintf("239.%d.%d.%d:%d", 100+pid%100, (pid/100)%250, 1+rng.Intn(250), 20000+rng.Intn(20000))
	sock, err := knxnet.ListenRouter(group)
	if err != nil {
		r.Inconclusive("router: listen " + group + ": " + err.Error())
		return
	}
	defer sock.Close()
	gaddr, _ := net.ResolveUDPAddr("udp4", group)
	peer, err := net.DialUDP("udp4", nil, gaddr)
	if err != nil {
		r.Inconclusive("router: dial: " + err.Error())
		return
	}
	defer peer.Close()
	// probe: does multicast reach the socket at all in this sandbox?
	peer.Write(marker(0x7fff))
	pd, _ := expect(marker(0x7fff))
	if _, _, to := readWindow(sock.Inbound(), pd, 2*time.Second); to {
		r.Inconclusive("router: multicast probe did not arrive on " + group + " (no multicast path in this sandbox)")
		return
	}
	for i := 0; i < n; i++ {
		w := buildWindow(rng, 0x5000+i, false)
		r.Crumb("C01 router window=%d datagrams=%v", i, hexList(w.datagrams))
		r.Eval(1)
		for _, d := range w.datagrams {
			if len(d) == 0 {
				continue
			}
			if _, err := peer.Write(d); err != nil {
				r.Inconclusive("router: write: " + err.Error())
				return
			}
		}
		got, closed, to := readWindow(sock.Inbound(), w.markerDmp, 5*time.Second)
		if !judge("router", w, got, closed, to) && (closed || to) {
			return
		}
	}
}

func tcpPair() (*knxnet.TunnelSocket, net.Conn, func(), error) {
	ln, err := net.Listen("tcp4", "127.0.0.1:0")
	if err != nil {
		return nil, nil, nil, err
	}
	sock, err := knxnet.DialTunnelTCP(ln.Addr().String())
	if err != nil {
		ln.Close()
		return nil, nil, nil, err
	}
	conn, err := ln.Accept()
	if err != nil {
		ln.Close()
		sock.Close()
		return nil, nil, nil, err
	}
	return sock, conn, func() { conn.Close(); sock.Close(); ln.Close() }, nil
}

func writeChunked(rng *rand.Rand, c net.Conn, b []byte) error {
	for len(b) > 0 {
		k := len(b)
		switch rng.Intn(4) {
		case 0:
			k = 1
		case 1:
			k = 1 + rng.Intn(len(b))
		}
		if _, err := c.Write(b[:k]); err != nil {
			return err
		}
		b = b[k:]
		if rng.Intn(6) == 0 {
			time.Sleep(time.Duration(rng.Intn(300)) * time.Microsecond)
		}
	}
	return nil
}

func tcpStream(rng *rand.Rand, n int) {
	sock, conn, done, err := tcpPair()
	if err != nil {
		r.Inconclusive("tcp: " + err.Error())
		return
	}
	defer done()
	for i := 0; i < n; i++ {
		w := buildWindow(rng, 0x6000+i, true)
		r.Crumb("C01 tcp window=%d frames=%v", i, hexList(w.datagrams))
		r.Eval(1)
		var stream []byte
		for _, d := range w.datagrams {
			stream = append(stream, d...)
		}
		go writeChunked(rand.New(rand.NewSource(int64(i))), conn, stream)
		got, closed, to := readWindow(sock.Inbound(), w.markerDmp, 8*time.Second)
		if !judge("tcp", w, got, closed, to) && (closed || to) {
			return
		}
	}
}

// tcpHeaderCorruption: a corrupted header may end the connection, but must
// never panic, spin or hang: within the bound the receiver either delivers
// the following marker or closes Inbound.
func tcpHeaderCorruption(rng *rand.Rand) {
	type hc struct {
		name string
		hdr  []byte
	}
	var cases []hc
	for tl := 0; tl < 6; tl++ {
		cases = append(cases, hc{fmt.Sprintf("total-length-%d", tl), []byte{6, 0x10, 0x02, 0x08, 0, byte(tl)}})
	}
	cases = append(cases, hc{"header-size-0", []byte{0, 0x10, 0x02, 0x08, 0, 8, 1, 0}}, hc{"header-size-8", []byte{8, 0x10, 0x02, 0x08, 0, 8, 1, 0}},
		hc{"version-0x11", []byte{6, 0x11, 0x02, 0x08, 0, 8, 1, 0}}, hc{"version-0", []byte{6, 0, 0x02, 0x08, 0, 8, 1, 0}},
		hc{"all-zero", []byte{0, 0, 0, 0, 0, 0}}, hc{"all-ff", []byte{0xff, 0xff, 0xff, 0xff, 0xff, 0xff}})
	outcomes := map[string]int{}
	for i, c := range cases {
		sock, conn, done, err := tcpPair()
		if err != nil {
			r.Inconclusive("tcp: " + err.Error())
			return
		}
		r.Eval(1)
		r.Crumb("C01 tcp header corruption %s", c.name)
		m1, m2 := marker(0x7000+2*i), marker(0x7001+2*i)
		d1, _ := expect(m1)
		d2, _ := expect(m2)
		conn.Write(m1)
		_, closed, to := readWindow(sock.Inbound(), d1, 5*time.Second)
		if closed || to {
			r.Violate("socket.marker-lost", map[string]string{"socket": "tcp"}, map[string]interface{}{"case": c.name}, "tcp: first marker not delivered on a fresh connection")
			done()
			continue
		}
		conn.Write(c.hdr)
		conn.Write(m2)
		_, closed, to = readWindow(sock.Inbound(), d2, 5*time.Second)
		switch {
		case closed:
			outcomes["connection-ended"]++
		case to:
			r.Violate("socket.receiver-stalled", map[string]string{"socket": "tcp"}, map[string]interface{}{"case": c.name, "header": hex.EncodeToString(c.hdr)},
				"tcp: after the corrupted header %x (%s) the receiver neither delivered the next frame nor ended within 5 s (busy loop or hang)", c.hdr, c.name)
		default:
			outcomes["continued"]++
		}
		r.DistinctStr("tcp-hdr-" + c.name)
		done()
	}
	r.Observe("tcp_header_corruption_outcomes", outcomes)
	// peer closes in the middle of a frame: Inbound must close
	sock, conn, done, err := tcpPair()
	if err == nil {
		r.Eval(1)
		F := longFrame(rng).Encode()
		conn.Write(F[:len(F)/2])
		conn.Close()
		select {
		case _, ok := <-sock.Inbound():
			if ok {
				r.Violate("socket.surfaced", map[string]string{"socket": "tcp"}, map[string]interface{}{"half_frame": hex.EncodeToString(F[:len(F)/2])}, "tcp: half a frame followed by EOF surfaced a frame")
			}
		case <-time.After(5 * time.Second):
			r.Violate("socket.receiver-stalled", map[string]string{"socket": "tcp"}, nil, "tcp: Inbound not closed within 5 s after the peer closed mid-frame")
		}
		done()
	}
}

func socketPart() {
	rng := rand.New(rand.NewSource(r.Seed()*31 + 11))
	n := r.Pick(100, 1700)
	udpTunnel(rng, n)
	routerSock(rng, n)
	tcpStream(rng, n)
	tcpHeaderCorruption(rng)
	r.Observe("socket_windows", nWindows)
	r.Observe("socket_datagrams_sent", nDatagrams)
	r.Observe("socket_frames_surfaced", nSurfaced)
	r.Observe("socket_datagrams_dropped_as_malformed", nDropped)
	r.Observe("socket_markers_delivered", nMarkers)
	if nMarkers == 0 {
		r.Broken("no marker frame was delivered through any live socket: the socket oracle observed nothing")
	}
}
