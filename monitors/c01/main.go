// C01 — decoding untrusted bytes never panics, hangs or reads past the
// datagram; a malformed frame does not stop a live receiver.
//
// Direct oracle: every input is decoded by every decoder entry point three
// times — from an exact-capacity slice, as a prefix of a larger buffer that
// holds the remnants of the (longer) frame it was derived from, and as a
// prefix of a buffer filled with other garbage. No panic, no hang (watchdog),
// consumed length <= input length, the three outcomes agree, and the decoded
// value does not change when the buffer is overwritten afterwards.
// Socket oracle: see socket.go.
package main

import (
	"encoding/hex"
	"fmt"
	"math/rand"
	"os"
	"runtime"
	"sync"
	"sync/atomic"
	"time"

	"github.com/vapourismo/knx-go/knx/cemi"
	"github.com/vapourismo/knx-go/knx/knxnet"
	"github.com/vapourismo/knx-go/knx/util"

	"verif/internal/gen"
	"verif/internal/libx"
	"verif/internal/mon"
	"verif/internal/spec"
)

func main() {
	mon.Main("C01", "exploration", mon.Options{QuickTimeout: 20 * time.Minute, ThoroughTimeout: 120 * time.Minute}, run)
}

var r *mon.Run

type decoder struct {
	name string
	fn   func(b []byte) (interface{}, uint, error)
}

var decoders = []decoder{
	{"knxnet.Unpack", func(b []byte) (interface{}, uint, error) {
		var s knxnet.Service
		n, err := knxnet.Unpack(b, &s)
		return s, n, err
	}},
	{"cemi.Unpack", func(b []byte) (interface{}, uint, error) {
		var m cemi.Message
		n, err := cemi.Unpack(b, &m)
		return m, n, err
	}},
	{"knxnet.UnpackHeader", func(b []byte) (interface{}, uint, error) {
		var id knxnet.ServiceID
		var tl uint16
		n, err := knxnet.UnpackHeader(b, &id, &tl)
		return [2]uint16{uint16(id), tl}, n, err
	}},
	{"SearchReq", func(b []byte) (interface{}, uint, error) { v := &knxnet.SearchReq{}; n, e := v.Unpack(b); return v, n, e }},
	{"SearchRes", func(b []byte) (interface{}, uint, error) { v := &knxnet.SearchRes{}; n, e := v.Unpack(b); return v, n, e }},
	{"DescriptionReq", func(b []byte) (interface{}, uint, error) { v := &knxnet.DescriptionReq{}; n, e := v.Unpack(b); return v, n, e }},
	{"DescriptionRes", func(b []byte) (interface{}, uint, error) { v := &knxnet.DescriptionRes{}; n, e := v.Unpack(b); return v, n, e }},
	{"ConnReq", func(b []byte) (interface{}, uint, error) { v := &knxnet.ConnReq{}; n, e := v.Unpack(b); return v, n, e }},
	{"ConnRes", func(b []byte) (interface{}, uint, error) { v := &knxnet.ConnRes{}; n, e := v.Unpack(b); return v, n, e }},
	{"ConnStateReq", func(b []byte) (interface{}, uint, error) { v := &knxnet.ConnStateReq{}; n, e := v.Unpack(b); return v, n, e }},
	{"ConnStateRes", func(b []byte) (interface{}, uint, error) { v := &knxnet.ConnStateRes{}; n, e := v.Unpack(b); return v, n, e }},
	{"DiscReq", func(b []byte) (interface{}, uint, error) { v := &knxnet.DiscReq{}; n, e := v.Unpack(b); return v, n, e }},
	{"DiscRes", func(b []byte) (interface{}, uint, error) { v := &knxnet.DiscRes{}; n, e := v.Unpack(b); return v, n, e }},
	{"TunnelReq", func(b []byte) (interface{}, uint, error) { v := &knxnet.TunnelReq{}; n, e := v.Unpack(b); return v, n, e }},
	{"TunnelRes", func(b []byte) (interface{}, uint, error) { v := &knxnet.TunnelRes{}; n, e := v.Unpack(b); return v, n, e }},
	{"RoutingInd", func(b []byte) (interface{}, uint, error) { v := &knxnet.RoutingInd{}; n, e := v.Unpack(b); return v, n, e }},
	{"RoutingLost", func(b []byte) (interface{}, uint, error) { v := &knxnet.RoutingLost{}; n, e := v.Unpack(b); return v, n, e }},
	{"RoutingBusy", func(b []byte) (interface{}, uint, error) { v := &knxnet.RoutingBusy{}; n, e := v.Unpack(b); return v, n, e }},
	{"UnknownService", func(b []byte) (interface{}, uint, error) { v := &knxnet.UnknownService{}; n, e := v.Unpack(b); return v, n, e }},
	{"HostInfo", func(b []byte) (interface{}, uint, error) { v := &knxnet.HostInfo{}; n, e := v.Unpack(b); return v, n, e }},
	{"DescriptionBlock", func(b []byte) (interface{}, uint, error) { v := &knxnet.DescriptionBlock{}; n, e := v.Unpack(b); return v, n, e }},
	{"DeviceInformationBlock", func(b []byte) (interface{}, uint, error) {
		v := &knxnet.DeviceInformationBlock{}
		n, e := v.Unpack(b)
		return v, n, e
	}},
	{"SupportedServicesDIB", func(b []byte) (interface{}, uint, error) {
		v := &knxnet.SupportedServicesDIB{}
		n, e := v.Unpack(b)
		return v, n, e
	}},
	{"ServiceFamily", func(b []byte) (interface{}, uint, error) { v := &knxnet.ServiceFamily{}; n, e := v.Unpack(b); return v, n, e }},
	{"UnknownDescriptionBlock", func(b []byte) (interface{}, uint, error) {
		v := &knxnet.UnknownDescriptionBlock{}
		n, e := v.Unpack(b)
		return v, n, e
	}},
	{"cemi.Info", func(b []byte) (interface{}, uint, error) { var v cemi.Info; n, e := v.Unpack(b); return v, n, e }},
	{"cemi.LData", func(b []byte) (interface{}, uint, error) { v := &cemi.LData{}; n, e := v.Unpack(b); return v, n, e }},
	{"cemi.LRaw", func(b []byte) (interface{}, uint, error) { var v cemi.LRaw; n, e := v.Unpack(b); return v, n, e }},
	{"cemi.LBusmonInd", func(b []byte) (interface{}, uint, error) { var v cemi.LBusmonInd; n, e := v.Unpack(b); return v, n, e }},
	{"cemi.UnsupportedMessage", func(b []byte) (interface{}, uint, error) {
		v := &cemi.UnsupportedMessage{}
		n, e := v.Unpack(b)
		return v, n, e
	}},
	{"util.UnpackString30", func(b []byte) (interface{}, uint, error) {
		var s string
		n, e := util.UnpackString(b, 30, &s)
		return s, n, e
	}},
	{"util.UnpackSome", func(b []byte) (interface{}, uint, error) {
		var a uint8
		var c uint16
		var d uint32
		e8 := make([]byte, 5)
		n, e := util.UnpackSome(b, &a, &c, &d, e8)
		return []interface{}{a, c, d, e8}, n, e
	}},
}

type outcome struct {
	pan  string
	err  bool
	n    uint
	dump string
	// dump after the buffer was overwritten
	alias bool
}

// per-worker hang watchdog state
type wstate struct {
	since atomic.Int64
	mu    sync.Mutex
	what  string
}

var workers []*wstate

var nInputs, nDecodes, nAccepted, nRejected int64

func decodeOnce(d *decoder, buf []byte) outcome {
	var o outcome
	var v interface{}
	var err error
	o.pan = mon.Guard(func() { v, o.n, err = d.fn(buf) })
	if o.pan != "" {
		return o
	}
	o.err = err != nil
	if !o.err {
		o.dump = libx.Dump(v)
		// overwrite the buffer (as the receiver does with the next datagram)
		for i := range buf {
			buf[i] ^= 0x5a
		}
		if libx.Dump(v) != o.dump {
			o.alias = true
		}
	}
	return o
}

// checkInput runs one input through every decoder three times.
func checkInput(w *wstate, b []byte, base []byte, how string, noise []byte) {
	atomic.AddInt64(&nInputs, 1)
	r.Eval(1)
	arenaA := make([]byte, 2048)
	arenaB := make([]byte, 2048)
	for di := range decoders {
		d := &decoders[di]
		w.mu.Lock()
		w.what = fmt.Sprintf("%s input=%x how=%s", d.name, b, how)
		w.mu.Unlock()
		w.since.Store(time.Now().UnixNano())
		// run 1: exact capacity
		b1 := make([]byte, len(b))
		copy(b1, b)
		o1 := decodeOnce(d, b1)
		// run 2: prefix of a buffer holding the remnants of the longer base frame
		copy(arenaA, noise)
		copy(arenaA, base)
		copy(arenaA, b)
		o2 := decodeOnce(d, arenaA[:len(b)])
		// run 3: other garbage behind the input
		for i := range arenaB {
			arenaB[i] = noise[(i*7+13)%len(noise)] ^ 0xff
		}
		copy(arenaB, b)
		o3 := decodeOnce(d, arenaB[:len(b)])
		w.since.Store(0)
		atomic.AddInt64(&nDecodes, 3)
		attrs := map[string]string{"decoder": d.name}
		cs := map[string]interface{}{"decoder": d.name, "input": hex.EncodeToString(b), "derived": how, "base_frame": hex.EncodeToString(base)}
		if o1.pan != "" || o2.pan != "" || o3.pan != "" {
			p := o1.pan
			where := "exact-capacity slice"
			if p == "" {
				p, where = o2.pan, "prefix of a larger buffer"
			}
			if p == "" {
				p = o3.pan
			}
			r.Violate("decode.panic", attrs, cs, "%s(%x) [%s, %s] panicked: %s", d.name, clip(b), how, where, p)
			continue
		}
		for _, o := range []outcome{o1, o2, o3} {
			if !o.err && int(o.n) > len(b) {
				r.Violate("decode.consumed", attrs, cs, "%s(%x) [%s] reports %d bytes consumed of an input of %d", d.name, clip(b), how, o.n, len(b))
				break
			}
		}
		if o1.err != o2.err || o1.err != o3.err || (!o1.err && (o1.n != o2.n || o1.n != o3.n || o1.dump != o2.dump || o1.dump != o3.dump)) {
			cs["exact"], cs["with_remnants"], cs["with_garbage"] = show(o1), show(o2), show(o3)
			r.Violate("decode.overread", attrs, cs, "%s(%x) [%s]: outcome depends on bytes beyond the input: exact-capacity %s / behind it the remnants of the longer frame %s / other garbage %s",
				d.name, clip(b), how, show(o1), show(o2), show(o3))
			continue
		}
		if o1.alias || o2.alias || o3.alias {
			r.Violate("decode.aliasing", attrs, cs, "%s(%x) [%s]: the decoded value changes when the receive buffer is overwritten afterwards", d.name, clip(b), how)
			continue
		}
		if o1.err {
			atomic.AddInt64(&nRejected, 1)
		} else {
			atomic.AddInt64(&nAccepted, 1)
		}
	}
	if len(b) > 6 {
		r.DistinctBytes("in", b)
	}
}

func show(o outcome) string {
	if o.pan != "" {
		return "panic(" + o.pan + ")"
	}
	if o.err {
		return "error"
	}
	s := o.dump
	if len(s) > 160 {
		s = s[:160] + "…"
	}
	return fmt.Sprintf("ok(n=%d, %s)", o.n, s)
}

func clip(b []byte) []byte {
	if len(b) > 80 {
		return b[:80]
	}
	return b
}

var lenValues = func(true_ byte) []byte {
	return []byte{0, 1, 2, 3, true_ - 1, true_ + 1, 0x7f, 0xff}
}

// derive emits every input derived from one valid frame.
func derive(rng *rand.Rand, f *spec.Frame, thorough bool, emit func(b, base []byte, how string)) {
	F := f.Encode()
	emit(F, F, "valid")
	// truncations
	for k := 0; k < len(F); k++ {
		if !thorough && len(F) > 96 && k > 48 && k < len(F)-12 && k%9 != 0 {
			continue
		}
		emit(F[:k], F, fmt.Sprintf("truncated-to-%d", k))
		if k >= 6 && (k%5 == 0 || k < 24) {
			t := append([]byte(nil), F[:k]...)
			t[4], t[5] = byte(k>>8), byte(k)
			emit(t, F, fmt.Sprintf("truncated-to-%d-header-patched", k))
		}
	}
	// length-like octets
	for _, o := range f.LenOffsets() {
		if o >= len(F) {
			continue
		}
		for _, v := range lenValues(F[o]) {
			if v == F[o] {
				continue
			}
			t := append([]byte(nil), F...)
			t[o] = v
			emit(t, F, fmt.Sprintf("length-octet@%d=%#02x(was %#02x)", o, v, F[o]))
			// and truncated right after a shrunk length
			if int(v) < int(F[o]) && o+int(v) < len(F) && o+int(v) > 6 {
				emit(t[:o+int(v)], F, fmt.Sprintf("length-octet@%d=%#02x+cut", o, v))
			}
		}
	}
	// trailing bytes
	emit(append(append([]byte(nil), F...), gen.Bytes(rng, 1+rng.Intn(8))...), F, "trailing-bytes")
	// the embedded cEMI message and its truncations go to the decoders bare
	if f.Cemi != nil {
		c := spec.EncodeCemi(nil, f.Cemi)
		for k := 0; k <= len(c); k++ {
			if !thorough && len(c) > 64 && k > 24 && k < len(c)-8 && k%11 != 0 {
				continue
			}
			emit(c[:k], c, fmt.Sprintf("cemi-truncated-to-%d", k))
			if k > 1 {
				emit(c[1:k], c[1:], fmt.Sprintf("cemi-body-truncated-to-%d", k-1))
			}
		}
	}
	// body alone (sub-structure decoders see it at offset 0)
	if len(F) > 6 {
		body := F[6:]
		for k := 0; k <= len(body); k++ {
			if len(body) > 40 && k > 20 && k < len(body)-6 && k%13 != 0 {
				continue
			}
			emit(body[:k], body, fmt.Sprintf("body-truncated-to-%d", k))
		}
	}
}

var dibTypes = []byte{0, 1, 2, 3, 4, 5, 6, 0x7f, 0xfe, 0xff}

// dibFuzz emits description / search responses built from odd DIB sequences.
func dibFuzz(rng *rand.Rand, emit func(b, base []byte, how string)) {
	good := gen.Frame(rng, spec.SvcDescrRes, -1)
	base := good.Encode()
	var body []byte
	n := 1 + rng.Intn(4)
	how := "dibs"
	for i := 0; i < n; i++ {
		typ := dibTypes[rng.Intn(len(dibTypes))]
		var content []byte
		switch rng.Intn(4) {
		case 0:
			content = spec.EncodeDevInfo(nil, good.Dev)[2:]
		case 1:
			content = spec.EncodeFamilies(nil, 2, good.Families)[2:]
		default:
			content = gen.Bytes(rng, rng.Intn(12))
		}
		true_ := byte(len(content) + 2)
		l := true_
		switch rng.Intn(8) {
		case 0:
			l = 0
		case 1:
			l = 1
		case 2:
			l = 2
		case 3:
			l = 3
		case 4:
			l = true_ + 1
		case 5:
			l = 0xff
		case 6:
			l = true_ - 1
		}
		how += fmt.Sprintf("[t=%#02x l=%d/%d]", typ, l, true_)
		body = append(body, l, typ)
		body = append(body, content...)
		if rng.Intn(6) == 0 && len(content) > 0 {
			body = body[:len(body)-1-rng.Intn(len(content))]
		}
	}
	svc := uint16(spec.SvcDescrRes)
	if rng.Intn(3) == 0 {
		svc = spec.SvcSearchRes
		body = append(spec.EncodeHPAI(nil, gen.HPAI(rng)), body...)
	}
	emit(spec.Header(svc, body), base, how)
	emit(body, base[6:], how+"/bare")
}

// randomBodies emits random bodies under each service id and cEMI code.
func randomBodies(rng *rand.Rand, emit func(b, base []byte, how string)) {
	ids := append(append([]uint16(nil), spec.Services...), 0x0999, 0)
	for _, id := range ids {
		n := rng.Intn(40)
		switch rng.Intn(6) {
		case 0:
			n = rng.Intn(1019)
		case 1:
			n = rng.Intn(4)
		}
		body := gen.Bytes(rng, n)
		if id == spec.SvcTunnelReq && n >= 5 && rng.Intn(2) == 0 {
			body[0], body[3] = 4, 0
			body[4] = spec.MessageCodes[rng.Intn(7)]
		}
		if id == spec.SvcRoutingInd && n >= 1 && rng.Intn(2) == 0 {
			body[0] = spec.MessageCodes[rng.Intn(7)]
		}
		base := gen.Frame(rng, id, -1).Encode()
		emit(spec.Header(id, body), base, fmt.Sprintf("random-body-%d", n))
	}
	// bare cEMI with random tail
	code := spec.MessageCodes[rng.Intn(7)]
	c := append([]byte{code}, gen.Bytes(rng, rng.Intn(30))...)
	emit(c, spec.EncodeCemi(nil, gen.Cemi(rng, -1)), "random-cemi")
}

func run(rr *mon.Run) {
	r = rr
	r.Rule("inputs: valid frames of all 15 services (+unknown) x 8 cEMI kinds; every truncation (with and without patched header length); every embedded length octet set to {0,1,2,3,true-1,true+1,0x7f,0xff} (and cut there); odd DIB sequences (zero/short/over-long lengths, every type code); random bodies 0..1018 under each service id; embedded cEMI messages and bodies bare. Each input goes to all 33 decoder entry points x 3 buffer layouts. Distinct = distinct input byte strings longer than the 6-byte header (hash set); plus datagram sequences on live sockets")
	nw := runtime.GOMAXPROCS(0)
	if nw > 16 {
		nw = 16
	}
	workers = make([]*wstate, nw)
	for i := range workers {
		workers[i] = &wstate{}
	}
	// hang watchdog: a decode running longer than 5 s is a hang
	go func() {
		for {
			time.Sleep(250 * time.Millisecond)
			now := time.Now().UnixNano()
			for _, w := range workers {
				s := w.since.Load()
				if s != 0 && now-s > int64(5*time.Second) {
					w.mu.Lock()
					what := w.what
					w.mu.Unlock()
					r.Violate("decode.hang", nil, map[string]interface{}{"case": what}, "decoding did not terminate within 5 s: %s", what)
					fmt.Fprintln(os.Stderr, "hang:", what)
					r.FinishNow()
				}
			}
		}
	}()
	framesPerCell := r.Pick(12, 150)
	fuzzN := r.Pick(3000, 200000)
	type cell struct {
		svc  uint16
		kind int
	}
	var cells []cell
	for _, s := range append(append([]uint16(nil), spec.Services...), 0) {
		if gen.CarriesCemi(s) {
			for k := 0; k < 8; k++ {
				cells = append(cells, cell{s, k})
			}
		} else {
			cells = append(cells, cell{s, -1}, cell{s, -1})
		}
	}
	jobs := make(chan int, len(cells)*framesPerCell+fuzzN)
	for i := 0; i < len(cells)*framesPerCell; i++ {
		jobs <- i
	}
	for i := 0; i < fuzzN/50; i++ {
		jobs <- -1 - i
	}
	close(jobs)
	var wg sync.WaitGroup
	for wi := 0; wi < nw; wi++ {
		wg.Add(1)
		go func(w *wstate) {
			defer wg.Done()
			noise := make([]byte, 2048)
			for job := range jobs {
				rng := rand.New(rand.NewSource(r.Seed()*1000003 + int64(job)*7919 + 1))
				rng.Read(noise)
				emit := func(b, base []byte, how string) {
					r.Crumb("C01 direct job=%d how=%s input=%x", job, how, b)
					checkInput(w, b, base, how, noise)
				}
				if job >= 0 {
					ce := cells[job/framesPerCell]
					f := gen.Frame(rng, ce.svc, ce.kind)
					derive(rng, f, r.Thorough(), emit)
				} else {
					for i := 0; i < 25; i++ {
						dibFuzz(rng, emit)
					}
					for i := 0; i < 2; i++ {
						randomBodies(rng, emit)
					}
				}
			}
		}(workers[wi])
	}
	wg.Wait()
	r.Observe("direct_inputs", atomic.LoadInt64(&nInputs))
	r.Observe("direct_decodes", atomic.LoadInt64(&nDecodes))
	r.Observe("direct_inputs_x_decoders_accepted", atomic.LoadInt64(&nAccepted))
	r.Observe("direct_inputs_x_decoders_rejected", atomic.LoadInt64(&nRejected))
	r.Observe("decoder_entry_points", len(decoders))
	if r.WantSample() {
		f := gen.Frame(rand.New(rand.NewSource(r.Seed())), spec.SvcTunnelReq, 1)
		F := f.Encode()
		r.Sample(map[string]interface{}{"kind": "direct", "base_frame": hex.EncodeToString(F), "derived": []string{"every truncation", "length octets " + fmt.Sprint(f.LenOffsets()) + " set to {0,1,2,3,true-1,true+1,0x7f,0xff}"}})
	}
	socketPart()
	r.Assume("UDP datagrams longer than 1024 bytes are out of scope (the receiver truncates them by design)")
	r.Assume("on TCP a corrupted 6-byte header may end the connection (a byte stream cannot be resynchronised); drop-and-continue is demanded for frames with a correct header and malformed body")
}
