// C03 — the tunnel sender is stop-and-wait: one request in flight, numbered
// consecutively, success only on a matching OK acknowledgement.
//
// The real client runs on an in-memory socket whose log is the wire. Four
// workloads: (1) 1..8 concurrent senders across a randomly lossy /
// duplicating / reordering network in front of a rule-following gateway,
// 600 Sends (wrap crossed twice); (2) a scripted gateway placing every
// acknowledgement class (withheld, wrong channel, wrong number, every error
// status, duplicates, silence, a stream of stale acknowledgements) at exact
// steps; (3) TCP mode; (4) quiescent reconnects (new and re-used channel id).
// Oracle: offline history checker (internal/tun) + porcupine on the send log.
package main

import (
	"fmt"
	"math/rand"
	"runtime"
	"strings"
	"sync"
	"sync/atomic"
	"time"

	"github.com/vapourismo/knx-go/knx"
	"github.com/vapourismo/knx-go/knx/knxnet"

	"verif/internal/gateway"
	"verif/internal/memsock"
	"verif/internal/mon"
	"verif/internal/spec"
	"verif/internal/tun"
)

func main() {
	mon.Main("C03", "exploration", mon.Options{QuickTimeout: 20 * time.Minute, ThoroughTimeout: 150 * time.Minute}, run)
}

var r *mon.Run

var totalSends, totalFrames, totalRetrans, totalOK, totalTimeout, totalRejected int64
var orders = map[uint64]bool{}
var faultsSeen = map[string]int64{}
var porc = map[string]int{}

func report(workload string, sig string, log []memsock.Event, p tun.Params, extra map[string]interface{}) []*tun.SendOp {
	finds, ops := tun.CheckSender(log, p)
	for _, f := range finds {
		cs := map[string]interface{}{"workload": workload, "signature": sig, "telegrams": f.IDs, "history": excerpt(log, ops, f.IDs)}
		for k, v := range extra {
			cs[k] = v
		}
		r.Violate(f.Tag, map[string]string{"workload": workload}, cs, "[%s] %s", workload, f.What)
	}
	if !p.TCP {
		res := tun.PorcupineSender(ops, p.Boundaries, 20*time.Second)
		porc[res]++
		if res == "illegal" {
			r.Violate("sender.not-linearizable", map[string]string{"workload": workload}, map[string]interface{}{"workload": workload, "signature": sig},
				"[%s] the Send history is not linearizable against the sequential numbered-log model (state = next number; a Send uses it and advances it iff acknowledged)", workload)
		} else if res == "unknown" {
			r.Inconclusive("porcupine timed out on " + sig)
		}
	}
	// interleaving signature: order of sender goroutines of the blocks on the wire
	var sb strings.Builder
	for _, o := range ops {
		atomic.AddInt64(&totalSends, 1)
		atomic.AddInt64(&totalFrames, int64(len(o.Frames)))
		if len(o.Frames) > 1 {
			atomic.AddInt64(&totalRetrans, int64(len(o.Frames)-1))
		}
		switch {
		case o.OK():
			totalOK++
		case o.TimedOut():
			totalTimeout++
		case o.Rejected():
			totalRejected++
		}
	}
	blocks := append([]*tun.SendOp(nil), ops...)
	for i := 1; i < len(blocks); i++ {
		for j := i; j > 0 && len(blocks[j].Frames) > 0 && len(blocks[j-1].Frames) > 0 && blocks[j].Frames[0] < blocks[j-1].Frames[0]; j-- {
			blocks[j], blocks[j-1] = blocks[j-1], blocks[j]
		}
	}
	for _, b := range blocks {
		fmt.Fprintf(&sb, "%d,", b.G)
	}
	orders[mon.Hash64(sb.String())] = true
	return ops
}

// excerpt renders the log events around the given telegrams.
func excerpt(log []memsock.Event, ops []*tun.SendOp, ids []uint32) []string {
	lo, hi := len(log), 0
	for _, o := range ops {
		for _, id := range ids {
			if o.ID == id {
				if o.CallIdx < lo {
					lo = o.CallIdx
				}
				end := o.RetIdx
				if end < 0 {
					end = len(log) - 1
				}
				if end > hi {
					hi = end
				}
			}
		}
	}
	if lo > hi {
		return nil
	}
	if hi-lo > 60 {
		hi = lo + 60
	}
	var out []string
	for i := lo; i <= hi && i < len(log); i++ {
		e := log[i]
		switch e.Kind {
		case memsock.Mark:
			out = append(out, fmt.Sprintf("%d %v %s", e.Idx, e.T, e.Note))
		default:
			id, _ := gateway.IDOfBytes(e.P.Cemi)
			out = append(out, fmt.Sprintf("%d %v %s svc=%#04x ch=%d seq=%d st=%d id=%d err=%v", e.Idx, e.T, e.Kind, e.P.Service, e.P.Channel, e.P.Seq, e.P.Status, id, e.Err))
		}
	}
	return out
}

func cfg(R, T time.Duration, tcp bool) knx.TunnelConfig {
	return knx.TunnelConfig{ResendInterval: R, HeartbeatInterval: 10 * time.Minute, ResponseTimeout: T, UseTCP: tcp}
}

func sendJitter(rng *rand.Rand) func(p spec.Parsed, raw []byte) memsock.Fault {
	var mu sync.Mutex
	return func(p spec.Parsed, raw []byte) memsock.Fault {
		if p.Service != spec.SvcTunnelReq {
			return memsock.Fault{}
		}
		mu.Lock()
		defer mu.Unlock()
		if rng.Intn(5) == 0 {
			return memsock.Fault{Sleep: time.Duration(rng.Intn(400)) * time.Microsecond}
		}
		return memsock.Fault{}
	}
}

// ---------------------------------------------------------------- workload 1

func lossy(seed int64, G, total int, R, T time.Duration, procs int) {
	runtime.GOMAXPROCS(procs)
	rng := rand.New(rand.NewSource(seed))
	sig := fmt.Sprintf("lossy G=%d N=%d R=%v T=%v procs=%d seed=%d", G, total, R, T, procs, seed)
	r.Crumb("C03 %s", sig)
	s := memsock.New("udp")
	gw := gateway.NewGateway(s, gateway.RandomPolicy(rng, 0.12, 0.10, 0.10))
	s.SendFault = sendJitter(rand.New(rand.NewSource(seed + 1)))
	can := mon.StartCanary()
	c, err := tun.Start(s, cfg(R, T, false))
	if err != nil {
		r.Violate("connect.failed", nil, map[string]interface{}{"signature": sig}, "connect over a healthy in-memory link failed: %v", err)
		return
	}
	var wg sync.WaitGroup
	for g := 0; g < G; g++ {
		wg.Add(1)
		go func(g int) {
			defer wg.Done()
			for i := 0; i < total/G; i++ {
				c.Send(g, uint32(g*100000+i+1))
			}
		}(g)
	}
	done := make(chan struct{})
	go func() { wg.Wait(); close(done) }()
	select {
	case <-done:
	case <-time.After(time.Duration(total)*T + 30*time.Second):
		r.Violate("sender.hang", map[string]string{"workload": "lossy"}, map[string]interface{}{"signature": sig}, "[lossy] Sends did not finish within the hang bound")
		return
	}
	gw.Flush()
	s.Quiesce(2 * time.Second)
	stall := can.Stop()
	c.T.Close()
	st := gw.NetStats()
	r.Eval(1)
	if st.Dropped+st.Duplicated+st.HeldBack > 0 {
		r.DistinctStr(sig)
	}
	faultsSeen["dropped"] += int64(st.Dropped)
	faultsSeen["duplicated"] += int64(st.Duplicated)
	faultsSeen["held_back_overtaken"] += int64(st.HeldBack)
	if stall > 250*time.Millisecond {
		r.Inconclusive(fmt.Sprintf("%s: scheduler stall of %v, timing checks skipped", sig, stall))
		return
	}
	ops := report("lossy", sig, s.Log(), tun.Params{Resend: R, Timeout: T, Slack: 3*stall + 20*time.Millisecond}, map[string]interface{}{"net": st})
	// non-vacuity: with 12 % loss and >= T/R retransmissions nearly every Send succeeds
	ok := 0
	for _, o := range ops {
		if o.OK() {
			ok++
		}
	}
	if len(ops) > 0 && float64(ok) < 0.95*float64(len(ops)) {
		r.Violate("sender.never-succeeds", map[string]string{"workload": "lossy"}, map[string]interface{}{"signature": sig, "ok": ok, "of": len(ops)},
			"[lossy] only %d of %d Sends succeeded across a link that loses 12 %% of the datagrams with %d retransmissions available", ok, len(ops), int(T/R))
	}
	if r.WantSample() {
		r.Sample(map[string]interface{}{"workload": sig, "sends": len(ops), "succeeded": ok, "network": st, "wire_events": s.Len()})
	}
}

// ---------------------------------------------------------------- workload 1b

// lossyReal is the loopback slice: the real knx.NewTunnel and the library's
// own UDP socket talk to the same gateway model through a bridge.
func lossyReal(seed int64, G, total int, R, T time.Duration) {
	runtime.GOMAXPROCS(runtime.NumCPU())
	rng := rand.New(rand.NewSource(seed))
	sig := fmt.Sprintf("lossy-real-socket G=%d N=%d R=%v T=%v seed=%d", G, total, R, T, seed)
	r.Crumb("C03 %s", sig)
	s, err := memsock.NewBridge()
	if err != nil {
		r.Inconclusive("bridge: " + err.Error())
		return
	}
	defer s.CloseBridge()
	gw := gateway.NewGateway(s, gateway.RandomPolicy(rng, 0.10, 0.08, 0.08))
	can := mon.StartCanary()
	c, err := tun.StartReal(s, cfg(R, T, false))
	if err != nil {
		can.Stop()
		r.Violate("connect.failed", nil, map[string]interface{}{"signature": sig}, "NewTunnel over loopback failed: %v", err)
		return
	}
	var wg sync.WaitGroup
	for g := 0; g < G; g++ {
		wg.Add(1)
		go func(g int) {
			defer wg.Done()
			for i := 0; i < total/G; i++ {
				c.Send(g, uint32(g*100000+i+1))
			}
		}(g)
	}
	done := make(chan struct{})
	go func() { wg.Wait(); close(done) }()
	select {
	case <-done:
	case <-time.After(time.Duration(total)*T + 30*time.Second):
		r.Violate("sender.hang", map[string]string{"workload": "lossy-real-socket"}, map[string]interface{}{"signature": sig}, "[lossy-real-socket] Sends did not finish within the hang bound")
		return
	}
	gw.Flush()
	s.Quiesce(2 * time.Second)
	stall := can.Stop()
	c.T.Close()
	st := gw.NetStats()
	r.Eval(1)
	r.DistinctStr(sig)
	faultsSeen["real-socket-dropped"] += int64(st.Dropped)
	if stall > 250*time.Millisecond {
		r.Inconclusive(sig + ": scheduler stall")
		return
	}
	report("lossy-real-socket", sig, s.Log(), tun.Params{Resend: R, Timeout: T, Slack: 3*stall + 25*time.Millisecond, EarlyTolerance: time.Millisecond + stall, Bridge: true}, map[string]interface{}{"net": st})
}

// ---------------------------------------------------------------- workload 2

const nScripts = 10

var scriptNames = []string{"ok-immediately", "withhold-until-3-copies", "wrong-channel-first", "wrong-number-first", "error-status", "ok-x3", "silence", "stale-ack-stream", "error-status-then-ok-late", "foreign-error-first"}

func scriptOf(seed int64, id uint32) int {
	return int((uint64(id)*2654435761 + uint64(seed)*40503) >> 7 % nScripts)
}

func scripted(seed int64, G, total int, R, T time.Duration, procs int) {
	runtime.GOMAXPROCS(procs)
	sig := fmt.Sprintf("scripted G=%d N=%d R=%v T=%v procs=%d seed=%d", G, total, R, T, procs, seed)
	r.Crumb("C03 %s", sig)
	s := memsock.New("udp")
	const ch = 7
	var mu sync.Mutex
	copies := map[uint32]int{}
	var statusCounter uint32
	ack := func(c, seq, st uint8) { s.Deliver(&knxnet.TunnelRes{Channel: c, SeqNumber: seq, Status: knxnet.ErrCode(st)}) }
	s.Handler = func(ev memsock.Event) {
		switch ev.P.Service {
		case spec.SvcConnReq:
			s.Deliver(&knxnet.ConnRes{Channel: ch, Control: knxnet.HostInfo{Protocol: knxnet.UDP4}})
		case spec.SvcTunnelReq:
			id, ok := gateway.IDOfBytes(ev.P.Cemi)
			if !ok {
				return
			}
			mu.Lock()
			copies[id]++
			k := copies[id]
			mu.Unlock()
			seq := ev.P.Seq
			switch scriptOf(seed, id) {
			case 0:
				ack(ch, seq, 0)
			case 1:
				if k >= 3 {
					ack(ch, seq, 0)
				}
			case 2:
				if k == 1 {
					ack(ch+1, seq, 0)
					ack(0, seq, 0)
				} else {
					ack(ch, seq, 0)
				}
			case 3:
				if k == 1 {
					ack(ch, seq-2, 0)
					ack(ch, seq-1, 0)
					ack(ch, seq+128, 0)
				} else {
					ack(ch, seq, 0)
				}
			case 4:
				if k == 1 {
					st := uint8(1 + atomic.AddUint32(&statusCounter, 1)%255)
					ack(ch, seq, st)
				}
			case 5:
				if k == 1 {
					ack(ch, seq, 0)
					ack(ch, seq, 0)
					ack(ch, seq, 0)
				}
			case 6:
			case 7:
				if k == 1 {
					go func() {
						end := time.Now().Add(T + T/2)
						for time.Now().Before(end) {
							if !s.Deliver(&knxnet.TunnelRes{Channel: ch, SeqNumber: seq - 1}) {
								return
							}
							time.Sleep(R / 2)
						}
					}()
				}
			case 8:
				if k == 1 {
					ack(ch, seq, 0x29)
				}
			case 9:
				if k == 1 {
					ack(ch+3, seq, 0x21)
					ack(ch, seq+128, 0x21)
				} else {
					ack(ch, seq, 0)
				}
			}
		}
	}
	can := mon.StartCanary()
	c, err := tun.Start(s, cfg(R, T, false))
	if err != nil {
		r.Violate("connect.failed", nil, map[string]interface{}{"signature": sig}, "connect failed: %v", err)
		return
	}
	var wg sync.WaitGroup
	for g := 0; g < G; g++ {
		wg.Add(1)
		go func(g int) {
			defer wg.Done()
			for i := 0; i < total/G; i++ {
				c.Send(g, uint32(g*100000+i+1))
			}
		}(g)
	}
	done := make(chan struct{})
	go func() { wg.Wait(); close(done) }()
	select {
	case <-done:
	case <-time.After(time.Duration(total)*T*2 + 30*time.Second):
		r.Violate("sender.hang", map[string]string{"workload": "scripted"}, map[string]interface{}{"signature": sig}, "[scripted] Sends did not finish within the hang bound")
		return
	}
	s.Quiesce(2 * time.Second)
	time.Sleep(T + T/2) // let stale-ack streams end
	stall := can.Stop()
	c.T.Close()
	r.Eval(1)
	r.DistinctStr(sig)
	if stall > 250*time.Millisecond {
		r.Inconclusive(fmt.Sprintf("%s: scheduler stall of %v", sig, stall))
		return
	}
	log := s.Log()
	ops := report("scripted", sig, log, tun.Params{Resend: R, Timeout: T, Slack: 3*stall + 20*time.Millisecond}, nil)
	counts := map[string]int{}
	// numbers whose exchange was broken by a frozen process: a Send that was owed a success
	// timed out with its copies far further apart than the resend interval. The number is
	// not advanced then, the next Send re-uses it, and a late answer to the starved Send's
	// last copy can decide that next Send instead: neither outcome says anything about the
	// sender
	type chSeq struct{ ch, seq uint8 }
	starvedNumbers := map[chSeq]bool{}
	for _, o := range ops {
		if !o.TimedOut() || len(o.Frames) == 0 {
			continue
		}
		prev, worst := time.Duration(-1), time.Duration(0)
		for _, fi := range o.Frames {
			if prev >= 0 && log[fi].T-prev > worst {
				worst = log[fi].T - prev
			}
			prev = log[fi].T
		}
		if o.RetT-prev > worst {
			worst = o.RetT - prev
		}
		if worst > 4*R+10*time.Millisecond {
			starvedNumbers[chSeq{o.Channel, o.Seq}] = true
		}
	}
	for _, o := range ops {
		sc := scriptOf(seed, o.ID)
		counts[scriptNames[sc]]++
		var want string
		switch sc {
		case 0, 1, 2, 3, 5, 9:
			want = "ok"
		case 4, 8:
			want = "rejected"
		default:
			want = "timeout"
		}
		got := "other:" + o.Err
		switch {
		case o.OK():
			got = "ok"
		case o.Rejected():
			got = "rejected"
		case o.TimedOut():
			got = "timeout"
		}
		if got != want && want == "ok" && got == "timeout" {
			// a Send that was owed a success timed out: was the process starved? (copies
			// of the request far further apart than the resend interval)
			prev, worst := time.Duration(-1), time.Duration(0)
			for _, fi := range o.Frames {
				if prev >= 0 && log[fi].T-prev > worst {
					worst = log[fi].T - prev
				}
				prev = log[fi].T
			}
			if o.RetT-prev > worst {
				worst = o.RetT - prev
			}
			if worst > 4*R+10*time.Millisecond {
				r.Inconclusive(fmt.Sprintf("%s: telegram %d (%s) timed out with %v between two copies of the request (resend interval %v): starved timers, not judged", sig, o.ID, scriptNames[sc], worst, R))
				continue
			}
		}
		if got != want && len(o.Frames) > 0 && starvedNumbers[chSeq{o.Channel, o.Seq}] {
			r.Inconclusive(fmt.Sprintf("%s: telegram %d (%s) shares its number %d with a Send whose exchange was broken by starved timers; outcome %q not judged", sig, o.ID, scriptNames[sc], o.Seq, got))
			continue
		}
		if got != want {
			r.Violate("sender.script-outcome", map[string]string{"workload": "scripted", "script": scriptNames[sc]},
				map[string]interface{}{"signature": sig, "script": scriptNames[sc], "telegram": o.ID, "history": excerpt(log, ops, []uint32{o.ID})},
				"[scripted] gateway behaviour %q for telegram %d: Send returned %q, the protocol rule gives %q", scriptNames[sc], o.ID, got, want)
		}
		if sc == 7 && len(o.Frames) < 3 && stall <= 2*R {
			r.Violate("sender.retransmission-suppressed", map[string]string{"workload": "scripted"}, map[string]interface{}{"signature": sig, "telegram": o.ID, "copies": len(o.Frames)},
				"[scripted] while acknowledgements for another number kept arriving, telegram %d was transmitted only %d times in a response timeout of %v (resend interval %v)", o.ID, len(o.Frames), T, R)
		}
	}
	for k, v := range counts {
		faultsSeen["script:"+k] += int64(v)
	}
}

// ---------------------------------------------------------------- workload 3

func tcpMode(seed int64, G, total int, procs int) {
	runtime.GOMAXPROCS(procs)
	sendLocal := seed%2 == 1
	sig := fmt.Sprintf("tcp G=%d N=%d procs=%d send-local-address=%v seed=%d", G, total, procs, sendLocal, seed)
	r.Crumb("C03 %s", sig)
	s := memsock.New("tcp")
	s.Handler = func(ev memsock.Event) {
		if ev.P.Service == spec.SvcConnReq {
			s.Deliver(&knxnet.ConnRes{Channel: 9, Control: knxnet.HostInfo{Protocol: knxnet.TCP4}})
		}
	}
	T := 60 * time.Millisecond
	tc := cfg(2*time.Millisecond, T, true)
	tc.SendLocalAddress = sendLocal // has no meaning on TCP; must not change the TCP behaviour
	c, err := tun.Start(s, tc)
	if err != nil {
		r.Violate("connect.failed", nil, map[string]interface{}{"signature": sig}, "TCP-mode connect failed: %v", err)
		return
	}
	can := mon.StartCanary()
	var wg sync.WaitGroup
	var slow int64
	for g := 0; g < G; g++ {
		wg.Add(1)
		go func(g int) {
			defer wg.Done()
			for i := 0; i < total/G; i++ {
				t0 := time.Now()
				c.Send(g, uint32(g*100000+i+1))
				if d := time.Since(t0); d > T/2 {
					atomic.AddInt64(&slow, 1)
				}
			}
		}(g)
	}
	wg.Wait()
	stall := can.Stop()
	c.T.Close()
	r.Eval(1)
	r.DistinctStr(sig)
	report("tcp", sig, s.Log(), tun.Params{TCP: true}, nil)
	if slow > 0 && stall < T/8 {
		r.Violate("tcp.send-waited", map[string]string{"workload": "tcp"}, map[string]interface{}{"signature": sig, "slow_sends": slow},
			"[tcp] %d Sends took longer than half the response timeout although TCP mode does not wait for acknowledgements (worst scheduler stall %v)", slow, stall)
	}
	if n := s.CountTx(spec.SvcTunnelRes, 0); n != 0 {
		r.Violate("tcp.unexpected-ack", nil, nil, "[tcp] %d tunnelling acknowledgements were sent in TCP mode", n)
	}
}

// ---------------------------------------------------------------- workload 4

func reconnect(seed int64, sameChannel bool, procs int) {
	runtime.GOMAXPROCS(procs)
	sig := fmt.Sprintf("reconnect same-channel=%v procs=%d seed=%d", sameChannel, procs, seed)
	r.Crumb("C03 %s", sig)
	R, T := 2*time.Millisecond, 60*time.Millisecond
	s := memsock.New("udp")
	gw := gateway.NewGateway(s, gateway.RandomPolicy(rand.New(rand.NewSource(seed)), 0.05, 0.05, 0.05))
	if sameChannel {
		gw.NextChannel = func(int) uint8 { return 0x2a }
	}
	c, err := tun.Start(s, cfg(R, T, false))
	if err != nil {
		r.Violate("connect.failed", nil, map[string]interface{}{"signature": sig}, "connect failed: %v", err)
		return
	}
	can := mon.StartCanary()
	var bounds []int
	id := uint32(0)
	phases := []int{270, 7, 300, 40}
	for ph, n := range phases {
		var wg sync.WaitGroup
		for g := 0; g < 2; g++ {
			wg.Add(1)
			base := id
			go func(g int) {
				defer wg.Done()
				for i := 0; i < n/2; i++ {
					c.Send(g, base+uint32(g*10000+i+1))
				}
			}(g)
		}
		wg.Wait()
		id += 100000
		if ph == len(phases)-1 {
			break
		}
		gw.Flush()
		s.Quiesce(time.Second)
		// gateway-initiated disconnect of the current channel, then sync point
		from := s.Len()
		chOld := gw.Channel()
		s.Deliver(&knxnet.DiscReq{Channel: chOld})
		if !s.WaitTx(spec.SvcConnReq, from, 1, 5*time.Second) {
			r.Violate("reconnect.no-connect-request", nil, map[string]interface{}{"signature": sig}, "no connect request followed a disconnect request for the current channel")
			return
		}
		// wait until the client took the connect response
		deadline := time.Now().Add(5 * time.Second)
		b := -1
		for b < 0 && time.Now().Before(deadline) {
			for _, e := range s.LogFrom(from) {
				if e.Kind == memsock.Rx && e.Taken && e.P.Service == spec.SvcConnRes && e.P.Status == 0 {
					b = e.Idx
				}
			}
			time.Sleep(200 * time.Microsecond)
		}
		if b < 0 {
			r.Violate("reconnect.no-connect-response-taken", nil, map[string]interface{}{"signature": sig}, "the connect response of the reconnect was not taken")
			return
		}
		bounds = append(bounds, b)
		// sync point: an inbound request with the new channel and number 0 must be acknowledged
		f2 := s.Len()
		if !gw.SendToClient(0xfff000 + uint32(ph)) {
			r.Violate("reconnect.sync-point", nil, map[string]interface{}{"signature": sig, "log_tail": excerptTail(s.Log(), f2)}, "after the reconnect an inbound request with number 0 on the new channel was not acknowledged")
			return
		}
		select {
		case <-c.T.Inbound():
		case <-time.After(2 * time.Second):
		}
	}
	gw.Flush()
	s.Quiesce(time.Second)
	stall := can.Stop()
	c.T.Close()
	r.Eval(1)
	r.DistinctStr(sig)
	if stall > 250*time.Millisecond {
		r.Inconclusive(sig + ": scheduler stall")
		return
	}
	report("reconnect", sig, s.Log(), tun.Params{Resend: R, Timeout: T, Slack: 3*stall + 20*time.Millisecond, Boundaries: bounds}, map[string]interface{}{"boundaries": bounds})
	faultsSeen["reconnects"] += int64(len(bounds))
}

// reconnectUnderLoad: senders keep sending while the gateway disconnects the
// client at random moments (a fresh channel id per epoch). Whatever the
// interleaving, the first request that carries a new channel carries number 0
// and the numbers of acknowledged requests on one channel are consecutive.
func reconnectUnderLoad(seed int64, G int, procs int) {
	runtime.GOMAXPROCS(procs)
	sig := fmt.Sprintf("reconnect-under-load G=%d procs=%d seed=%d", G, procs, seed)
	r.Crumb("C03 %s", sig)
	R, T := 2*time.Millisecond, 30*time.Millisecond
	rng := rand.New(rand.NewSource(seed))
	s := memsock.New("udp")
	gw := gateway.NewGateway(s, gateway.RandomPolicy(rand.New(rand.NewSource(seed+3)), 0.08, 0.05, 0.05))
	c, err := tun.Start(s, cfg(R, T, false))
	if err != nil {
		r.Violate("connect.failed", nil, map[string]interface{}{"signature": sig}, "connect failed: %v", err)
		return
	}
	stop := make(chan struct{})
	var wg sync.WaitGroup
	for g := 0; g < G; g++ {
		wg.Add(1)
		go func(g int) {
			defer wg.Done()
			for i := 0; ; i++ {
				select {
				case <-stop:
					return
				default:
				}
				c.Send(g, uint32(g*100000+i+1))
			}
		}(g)
	}
	epochs := 0
	for k := 0; k < 6; k++ {
		time.Sleep(time.Duration(5+rng.Intn(25)) * time.Millisecond)
		from := s.Len()
		if !s.Deliver(&knxnet.DiscReq{Channel: gw.Channel()}) {
			break
		}
		if !s.WaitTx(spec.SvcConnReq, from, 1, 5*time.Second) {
			break
		}
		epochs++
		time.Sleep(T + 10*time.Millisecond) // queued senders may each burn one timeout before the reconnect completes
	}
	time.Sleep(20 * time.Millisecond)
	close(stop)
	done := make(chan struct{})
	go func() { wg.Wait(); close(done) }()
	select {
	case <-done:
	case <-time.After(time.Duration(G+2)*T + 20*time.Second):
		r.Violate("sender.hang", map[string]string{"workload": "reconnect-under-load"}, map[string]interface{}{"signature": sig}, "[reconnect-under-load] Sends did not return")
		return
	}
	gw.Flush()
	s.Quiesce(time.Second)
	c.T.Close()
	r.Eval(1)
	r.DistinctStr(sig)
	faultsSeen["reconnects-under-load"] += int64(epochs)
	// per channel: the blocks in wire order
	log := s.Log()
	ops := tun.Ops(log)
	byCh := map[uint8][]*tun.SendOp{}
	var chOrder []uint8
	for _, o := range ops {
		atomic.AddInt64(&totalSends, 1)
		if len(o.Frames) == 0 {
			continue
		}
		if _, ok := byCh[o.Channel]; !ok {
			chOrder = append(chOrder, o.Channel)
		}
		byCh[o.Channel] = append(byCh[o.Channel], o)
	}
	for _, ch := range chOrder {
		blocks := byCh[ch]
		for i := 1; i < len(blocks); i++ {
			for j := i; j > 0 && blocks[j].Frames[0] < blocks[j-1].Frames[0]; j-- {
				blocks[j], blocks[j-1] = blocks[j-1], blocks[j]
			}
		}
		next := uint8(0)
		for _, b := range blocks {
			// all frames of a block carry one channel and one number
			for _, fi := range b.Frames {
				if log[fi].P.Channel != b.Channel || log[fi].P.Seq != b.Seq {
					r.Violate("sender.retransmission-differs", map[string]string{"workload": "reconnect-under-load"}, map[string]interface{}{"signature": sig, "telegram": b.ID, "history": excerpt(log, ops, []uint32{b.ID})},
						"[reconnect-under-load] the copies of telegram %d carry different channel / number (%d/%d vs %d/%d)", b.ID, log[fi].P.Channel, log[fi].P.Seq, b.Channel, b.Seq)
					return
				}
			}
			if b.Seq != next {
				r.Violate("sender.numbering", map[string]string{"workload": "reconnect-under-load"}, map[string]interface{}{"signature": sig, "channel": ch, "telegram": b.ID, "history": excerpt(log, ops, []uint32{b.ID})},
					"[reconnect-under-load] on channel %d telegram %d went out with sequence number %d, expected %d (numbering restarts at 0 with every newly assigned channel and advances with every acknowledged request)", ch, b.ID, b.Seq, next)
				return
			}
			if b.RetIdx >= 0 && (b.OK() || b.Rejected()) {
				next++
			}
		}
	}
}

// staleAck: an acknowledgement that is still waiting to be handed to a sender
// when the connection ends must not be taken for the acknowledgement of a
// request of the next connection. One Send (number 0) is acknowledged, copies
// of that acknowledgement are delivered again (they wait up to one resend
// interval for a sender), the gateway ends the connection (disconnect request
// or failed heartbeat), the client reconnects on a new channel, and the first
// Send there - number 0 again - gets no acknowledgement at all: it has to time
// out. Judged by the general sender checker (success needs an acknowledgement
// carrying the Send's own channel).
func staleAck(seed int64, how string, copies int, procs int) {
	runtime.GOMAXPROCS(procs)
	sig := fmt.Sprintf("stale-ack how=%s copies=%d procs=%d seed=%d", how, copies, procs, seed)
	r.Crumb("C03 %s", sig)
	R, T := 5*time.Millisecond, 40*time.Millisecond
	s := memsock.New("udp")
	var muted atomic.Bool
	gw := gateway.NewGateway(s, func(dir string, p spec.Parsed, nth int) gateway.Action {
		if muted.Load() && dir == "g2c" && p.Service == spec.SvcTunnelRes {
			return gateway.Action{Drop: true}
		}
		return gateway.Action{}
	})
	c0 := cfg(R, T, false)
	if how == "hb" {
		c0.HeartbeatInterval = 3 * time.Millisecond
	}
	c, err := tun.Start(s, c0)
	if err != nil {
		r.Inconclusive(sig + ": connect failed: " + err.Error())
		return
	}
	can := mon.StartCanary()
	c.Send(0, 1)
	ch1 := gw.Channel()
	from := s.Len()
	for i := 0; i < copies; i++ {
		s.Deliver(&knxnet.TunnelRes{Channel: ch1, SeqNumber: 0})
	}
	ep := gw.Epoch()
	if how == "disc" {
		gw.Disconnect()
	} else {
		gw.FailNextHeartbeat()
	}
	dl := time.Now().Add(5 * time.Second)
	b := -1
	for b < 0 && time.Now().Before(dl) {
		if gw.Epoch() > ep {
			for _, e := range s.LogFrom(from) {
				if e.Kind == memsock.Rx && e.Taken && e.P.Service == spec.SvcConnRes && e.P.Status == 0 {
					b = e.Idx
				}
			}
		}
		if b < 0 {
			time.Sleep(50 * time.Microsecond)
		}
	}
	if b < 0 {
		r.Violate("reconnect.no-connect-response-taken", nil, map[string]interface{}{"signature": sig}, "[stale-ack] the client did not reconnect after the gateway ended the connection (%s)", how)
		return
	}
	// sync point: once an inbound request on the new channel is acknowledged the new receive
	// loop runs, i.e. the client has finished the reconnect (taking the connect response is
	// not yet that: a Send could still slip in with the old channel and number)
	if !gw.SendToClient(0xfff100) {
		r.Inconclusive(sig + ": the sync request after the reconnect was not acknowledged")
		c.T.Close()
		return
	}
	select {
	case <-c.T.Inbound():
	case <-time.After(2 * time.Second):
	}
	muted.Store(true)
	c.Send(0, 2) // no acknowledgement will come: must not succeed
	muted.Store(false)
	c.Send(0, 3) // healthy again
	gw.Flush()
	s.Quiesce(time.Second)
	stall := can.Stop()
	c.T.Close()
	r.Eval(1)
	r.DistinctStr(sig)
	faultsSeen["stale-acknowledgements-across-reconnect"] += int64(copies)
	if stall > 250*time.Millisecond {
		r.Inconclusive(sig + ": scheduler stall")
		return
	}
	report("stale-ack", sig, s.Log(), tun.Params{Resend: R, Timeout: T, Slack: 3*stall + 20*time.Millisecond, Boundaries: []int{b}}, nil)
}

// slowResend: a legal but unusual configuration, resend interval longer than
// the response timeout. Nothing is ever retransmitted; an unacknowledged Send
// still has to return at the response timeout, an acknowledged one at once.
func slowResend(seed int64, procs int) {
	runtime.GOMAXPROCS(procs)
	R, T := 200*time.Millisecond, time.Duration(15+seed%3*10)*time.Millisecond
	sig := fmt.Sprintf("resend-longer-than-timeout R=%v T=%v procs=%d seed=%d", R, T, procs, seed)
	r.Crumb("C03 %s", sig)
	s := memsock.New("udp")
	var muted atomic.Bool
	gw := gateway.NewGateway(s, func(dir string, p spec.Parsed, nth int) gateway.Action {
		if muted.Load() && dir == "g2c" && p.Service == spec.SvcTunnelRes {
			return gateway.Action{Drop: true}
		}
		return gateway.Action{}
	})
	c, err := tun.Start(s, cfg(R, T, false))
	if err != nil {
		r.Inconclusive(sig + ": connect failed: " + err.Error())
		return
	}
	can := mon.StartCanary()
	for i := 0; i < 6; i++ {
		muted.Store(i%2 == 1)
		c.Send(0, uint32(i+1))
	}
	muted.Store(false)
	gw.Flush()
	s.Quiesce(time.Second)
	stall := can.Stop()
	c.T.Close()
	r.Eval(1)
	r.DistinctStr(sig)
	faultsSeen["sends-with-resend-interval-above-timeout"] += 6
	if stall > 100*time.Millisecond {
		r.Inconclusive(sig + ": scheduler stall")
		return
	}
	report("resend-longer-than-timeout", sig, s.Log(), tun.Params{Resend: R, Timeout: T, Slack: 3*stall + 20*time.Millisecond}, nil)
}

func excerptTail(log []memsock.Event, from int) []string {
	var out []string
	for _, e := range log[from:] {
		out = append(out, fmt.Sprintf("%d %s svc=%#04x ch=%d seq=%d st=%d %s", e.Idx, e.Kind, e.P.Service, e.P.Channel, e.P.Seq, e.P.Status, e.Note))
		if len(out) > 40 {
			break
		}
	}
	return out
}

func run(rr *mon.Run) {
	r = rr
	r.Rule("executions of the real tunnel client on an in-memory socket: lossy (random loss/duplication/hold-back on both directions, 1..8 senders, 600 Sends), scripted (10 acknowledgement behaviours placed per telegram), tcp, reconnect (4 phases, new or re-used channel id), reconnect under load, stale-ack (acknowledgements of the previous connection still waiting when the next one starts), resend interval longer than the response timeout. Distinct = distinct (workload, senders, intervals, GOMAXPROCS, seed) signatures in which at least one fault / scripted behaviour / reconnect actually occurred; interleavings = distinct sender-goroutine orders of the blocks on the wire")
	defer runtime.GOMAXPROCS(runtime.NumCPU())
	seed := r.Seed()
	procsList := []int{1, 2, 4, 16}
	nLossy := r.Pick(5, 160)
	nScripted := r.Pick(4, 120)
	nTCP := r.Pick(2, 40)
	nRecon := r.Pick(2, 80)
	for i := 0; i < nLossy && !r.Enough(); i++ {
		G := []int{1, 2, 4, 8, 3}[i%5]
		R := []time.Duration{2 * time.Millisecond, 5 * time.Millisecond}[i%2]
		T := []time.Duration{40 * time.Millisecond, 100 * time.Millisecond}[(i/2)%2]
		lossy(seed*1000+int64(i), G, 600, R, T, procsList[i%4])
	}
	for i := 0; i < r.Pick(2, 40); i++ {
		lossyReal(seed*1500+int64(i), []int{4, 1, 8}[i%3], 300, 3*time.Millisecond, 60*time.Millisecond)
	}
	for i := 0; i < nScripted && !r.Enough(); i++ {
		G := []int{1, 4, 2, 8}[i%4]
		scripted(seed*2000+int64(i), G, r.Pick(160, 300), 2*time.Millisecond, 40*time.Millisecond, procsList[(i+1)%4])
	}
	for i := 0; i < nTCP && !r.Enough(); i++ {
		tcpMode(seed*3000+int64(i), []int{4, 1, 8}[i%3], 400, procsList[(i+2)%4])
	}
	for i := 0; i < r.Pick(6, 200) && !r.Enough(); i++ {
		reconnectUnderLoad(seed*6000+int64(i), 2+i%4, procsList[i%4])
	}
	for i := 0; i < nRecon && !r.Enough(); i++ {
		reconnect(seed*4000+int64(i), i%2 == 0, procsList[(i+3)%4])
		slowResend(seed*4200+int64(i), procsList[i%4])
		for k := 0; k < 4; k++ {
			staleAck(seed*4100+int64(i*4+k), []string{"disc", "hb"}[k%2], 1+k/2, procsList[(i+k)%4])
		}
	}
	r.Observe("sends", totalSends)
	r.Observe("tunnelling_requests_on_the_wire", totalFrames)
	r.Observe("retransmissions", totalRetrans)
	r.Observe("sends_ok", totalOK)
	r.Observe("sends_timed_out", totalTimeout)
	r.Observe("sends_rejected", totalRejected)
	r.Observe("distinct_sender_interleavings", len(orders))
	r.Observe("faults_and_behaviours_applied", faultsSeen)
	r.Observe("porcupine_verdicts", porc)
	r.Assume("timestamps are taken inside sock.Send; lower bounds on retransmission times are exact, upper bounds carry 3 x worst canary stall + 20 ms")
	if totalRetrans == 0 || totalSends == 0 {
		r.Broken("no retransmission was observed: the workloads did not exercise the sender")
	}
}
