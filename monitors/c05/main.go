// C05 — telegrams cross a lossy link exactly once, in order, in both
// directions. The real client talks through an in-memory socket to a gateway
// model that follows the tunnelling rules; a network between them applies
// enumerated fault patterns (per exchange: up to two leading faults from
// {request lost, ack lost, ack duplicated, ack held, request duplicated,
// request held} and a terminal behaviour from {healthy, every ack lost, every
// request lost}) to both directions, plus random schedules over 600-Send runs.
// Oracle: offline exactly-once / order checker over the gateway's bus log and
// the Inbound reads, and porcupine against an append-log model.
package main

import (
	"fmt"
	"os"
	"math/rand"
	"runtime"
	"sort"
	"strings"
	"sync"
	"sync/atomic"
	"time"

	"github.com/anishathalye/porcupine"
	"github.com/vapourismo/knx-go/knx"

	"verif/internal/gateway"
	"verif/internal/memsock"
	"verif/internal/mon"
	"verif/internal/spec"
	"verif/internal/tun"
)

func main() {
	mon.Main("C05", "fault_enumeration", mon.Options{QuickTimeout: 20 * time.Minute, ThoroughTimeout: 150 * time.Minute}, run)
}

var r *mon.Run

// fates of one transmission
const (
	fL = 'L' // request lost
	fA = 'A' // request delivered, acknowledgement lost
	fD = 'D' // acknowledgement duplicated
	fH = 'H' // acknowledgement held back past later traffic
	fR = 'R' // request duplicated
	fQ = 'Q' // request held back (overtaken by its retransmission)
	fK = 'K' // healthy from here on
	fX = 'X' // every acknowledgement of this exchange lost
	fY = 'Y' // every request of this exchange lost
)

var leading = []byte{fL, fA, fD, fH, fR, fQ}
var terminalsOut = []byte{fK, fX, fY}

// exchangePatterns: "" .. two leading fates, then a terminal.
func exchangePatterns(terminals []byte) []string {
	var out []string
	var pre []string
	pre = append(pre, "")
	for _, a := range leading {
		pre = append(pre, string(a))
	}
	for _, a := range leading {
		for _, b := range leading {
			pre = append(pre, string([]byte{a, b}))
		}
	}
	for _, p := range pre {
		for _, t := range terminals {
			out = append(out, p+string(t))
		}
	}
	return out
}

func fateAt(pat string, k int) byte {
	if k < len(pat) {
		return pat[k]
	}
	return pat[len(pat)-1]
}

// patternPolicy builds the network policy for one scenario. out[e] is the
// pattern of the e-th client->gateway telegram (ids 1..), in[e] of the e-th
// gateway->client telegram (ids 1001..).
type patNet struct {
	mu      sync.Mutex
	out, in []string
	copies  map[uint32]int
	ackAct  map[string][]gateway.Action // key dir:seq -> queued actions for the acks of that number
	applied map[byte]int
	g2cID   map[uint8]uint32
}

func (n *patNet) pattern(id uint32) (string, bool) {
	if id >= 1 && int(id) <= len(n.out) {
		return n.out[id-1], true
	}
	if id >= 1001 && int(id-1001) < len(n.in) {
		return n.in[id-1001], true
	}
	return "", false
}

func (n *patNet) policy(dir string, p spec.Parsed, nth int) gateway.Action {
	n.mu.Lock()
	defer n.mu.Unlock()
	switch p.Service {
	case spec.SvcTunnelReq:
		var id uint32
		if dir == "c2g" {
			id, _ = gateway.IDOfBytes(p.Cemi)
		} else {
			id = n.g2cID[p.Seq]
		}
		pat, ok := n.pattern(id)
		if !ok {
			return gateway.Action{}
		}
		k := n.copies[id]
		n.copies[id]++
		f := fateAt(pat, k)
		if f != fK {
			n.applied[f]++
		}
		ackDir := "g2c"
		if dir == "g2c" {
			ackDir = "c2g"
		}
		key := fmt.Sprintf("%s:%d", ackDir, p.Seq)
		switch f {
		case fL, fY:
			return gateway.Action{Drop: true}
		case fA, fX:
			n.ackAct[key] = append(n.ackAct[key], gateway.Action{Drop: true})
		case fD:
			n.ackAct[key] = append(n.ackAct[key], gateway.Action{Dup: 1})
		case fH:
			n.ackAct[key] = append(n.ackAct[key], gateway.Action{Hold: 1})
		case fR:
			return gateway.Action{Dup: 1}
		case fQ:
			return gateway.Action{Hold: 1}
		}
		return gateway.Action{}
	case spec.SvcTunnelRes:
		key := fmt.Sprintf("%s:%d", dir, p.Seq)
		if q := n.ackAct[key]; len(q) > 0 {
			a := q[0]
			n.ackAct[key] = q[1:]
			return a
		}
	}
	return gateway.Action{}
}

// g2cID maps the gateway's outbound sequence number to the telegram id it
// currently carries (set by the scenario before each SendToClient).
func (n *patNet) setG2C(seq uint8, id uint32) {
	n.mu.Lock()
	if n.g2cID == nil {
		n.g2cID = map[uint8]uint32{}
	}
	n.g2cID[seq] = id
	n.mu.Unlock()
}

var (
	nScenarios, nSends, nBus, nInbound, nPhantomKnown, nReconnects, nConnFail int64
	appliedTotal                                      = map[string]int64{}
	porc                                              = map[string]int64{}
	statMu                                            sync.Mutex
)

type result struct {
	sig      string
	log      []memsock.Event
	ops      []*tun.SendOp
	bus      []gateway.BusEntry
	out      []gateway.OutEntry
	read     []uint32
	faults   int
	hung     bool
	stacks   []string
	connFail string
	noReconnect string
}

const (
	R = 2 * time.Millisecond
	T = 24 * time.Millisecond
)

func cfg() knx.TunnelConfig {
	return knx.TunnelConfig{ResendInterval: R, HeartbeatInterval: 10 * time.Minute, ResponseTimeout: T}
}

// phase is one connection epoch of an enumerated scenario: the patterns of its
// exchanges in both directions and how the connection ends afterwards ("" =
// it does not, "disc" = the gateway sends a disconnect request, "hb" = the
// gateway answers the next heartbeat with "unknown connection").
type phase struct {
	out, in   []string
	reconnect string
}

func single(out, in []string) []phase { return []phase{{out: out, in: in}} }

// scenario runs one enumerated pattern: per phase the exchanges of both
// directions run concurrently; between phases the client is made to reconnect
// (new channel, all four counters restart) and the telegram ids keep counting.
func scenario(phases []phase) result {
	var outPat, inPat []string
	sig := "enum"
	config := cfg()
	for i, ph := range phases {
		outPat = append(outPat, ph.out...)
		inPat = append(inPat, ph.in...)
		if i > 0 {
			sig += " |"
		}
		sig += " out=" + strings.Join(ph.out, ",") + " in=" + strings.Join(ph.in, ",")
		if ph.reconnect != "" {
			sig += " then " + ph.reconnect
		}
		if ph.reconnect == "hb" {
			config.HeartbeatInterval = 5 * time.Millisecond
		}
	}
	res := result{sig: sig}
	s := memsock.New("udp")
	pn := &patNet{out: outPat, in: inPat, copies: map[uint32]int{}, ackAct: map[string][]gateway.Action{}, applied: map[byte]int{}}
	gw := gateway.NewGateway(s, pn.policy)
	gw.Attempts = 40
	c, err := tun.Start(s, config)
	if err != nil {
		res.connFail = err.Error()
		return res
	}
	var rmu sync.Mutex
	stop := make(chan struct{})
	cons := make(chan struct{})
	go func() {
		defer close(cons)
		for {
			select {
			case m, ok := <-c.T.Inbound():
				if !ok {
					return
				}
				id, _ := gateway.IDOfMessage(m)
				rmu.Lock()
				res.read = append(res.read, id)
				rmu.Unlock()
			case <-stop:
				return
			}
		}
	}()
	done := make(chan struct{})
	go func() {
		defer close(done)
		outBase, inBase := 0, 0
		for pi, ph := range phases {
			last := pi == len(phases)-1
			var wg sync.WaitGroup
			wg.Add(2)
			go func() {
				defer wg.Done()
				// one extra healthy exchange at the very end probes the state left behind
				k := len(ph.out)
				if last {
					k++
				}
				for e := 0; e < k; e++ {
					c.Send(0, uint32(outBase+e+1))
				}
			}()
			go func() {
				defer wg.Done()
				k := len(ph.in)
				if last {
					k++
				}
				for e := 0; e < k; e++ {
					pn.setG2C(uint8(e), uint32(1001+inBase+e))
					gw.SendToClient(uint32(1001 + inBase + e))
				}
			}()
			wg.Wait()
			outBase += len(ph.out)
			inBase += len(ph.in)
			if ph.reconnect == "" {
				continue
			}
			ep := gw.Epoch()
			if ph.reconnect == "disc" {
				gw.Disconnect()
			} else {
				gw.FailNextHeartbeat()
			}
			dl := time.Now().Add(5 * time.Second)
			for gw.Epoch() == ep && time.Now().Before(dl) {
				time.Sleep(100 * time.Microsecond)
			}
			if gw.Epoch() == ep {
				res.noReconnect = "no new connect request within 5 s after the gateway ended the connection (" + ph.reconnect + ")"
				return
			}
			atomic.AddInt64(&nReconnects, 1)
			time.Sleep(300 * time.Microsecond)
		}
	}()
	select {
	case <-done:
	case <-time.After(20*T*time.Duration(len(outPat)+len(inPat)+2) + 20*time.Second):
		res.hung = true
	}
	gw.Flush()
	s.Quiesce(time.Second)
	// drain: wait (bounded) until every telegram the gateway saw acknowledged was read
	drainUntil := time.Now().Add(3 * time.Second)
	for time.Now().Before(drainUntil) {
		acked := 0
		for _, o := range gw.Out() {
			if o.Acked {
				acked++
			}
		}
		rmu.Lock()
		got := len(res.read)
		rmu.Unlock()
		if got >= acked {
			break
		}
		time.Sleep(200 * time.Microsecond)
	}
	time.Sleep(2 * R)
	close(stop)
	<-cons
	c.T.Close()
	res.log = s.Log()
	res.ops = tun.Ops(res.log)
	res.bus = gw.Bus()
	res.out = gw.Out()
	for f, k := range pn.applied {
		res.faults += k
		statMu.Lock()
		appliedTotal[string(f)] += int64(k)
		statMu.Unlock()
	}
	return res
}

// randomRun: G senders, n Sends, random faults on both directions, a
// concurrent stream of gateway->client telegrams.
func randomRun(seed int64, G, n int, reconnects int) result {
	res := result{sig: fmt.Sprintf("random G=%d n=%d seed=%d reconnects=%d", G, n, seed, reconnects)}
	s := memsock.New("udp")
	gw := gateway.NewGateway(s, gateway.RandomPolicy(rand.New(rand.NewSource(seed)), 0.12, 0.10, 0.10))
	gw.Attempts = 60
	rcfg := knx.TunnelConfig{ResendInterval: R, HeartbeatInterval: 10 * time.Minute, ResponseTimeout: 60 * time.Millisecond}
	if reconnects > 0 {
		rcfg.HeartbeatInterval = 6 * time.Millisecond
	}
	c, err := tun.Start(s, rcfg)
	if err != nil {
		res.connFail = err.Error()
		return res
	}
	var rmu sync.Mutex
	var sendsDone int64
	stop := make(chan struct{})
	cons := make(chan struct{})
	go func() {
		defer close(cons)
		for {
			select {
			case m, ok := <-c.T.Inbound():
				if !ok {
					return
				}
				id, _ := gateway.IDOfMessage(m)
				rmu.Lock()
				res.read = append(res.read, id)
				k := len(res.read)
				rmu.Unlock()
				// a lagging application (odd seeds): telegrams queue up on the client side
				if seed%2 == 1 && k%6 == 0 {
					t0 := time.Now()
					for time.Since(t0) < 40*time.Microsecond {
					}
				}
			case <-stop:
				return
			}
		}
	}()
	var wg sync.WaitGroup
	for g := 0; g < G; g++ {
		wg.Add(1)
		go func(g int) {
			defer wg.Done()
			for i := 0; i < n/G; i++ {
				c.Send(g, uint32(g*100000+i+1))
				atomic.AddInt64(&sendsDone, 1)
			}
		}(g)
	}
	wg.Add(1)
	go func() {
		defer wg.Done()
		for i := 0; i < n*2; i++ {
			if !gw.SendToClient(uint32(5000000+i)) && !gw.Connected() {
				time.Sleep(200 * time.Microsecond) // between two connections
			}
		}
	}()
	if reconnects > 0 {
		// the gateway ends the connection while senders and inbound traffic keep going
		wg.Add(1)
		go func() {
			defer wg.Done()
			for k := 1; k <= reconnects; k++ {
				dl := time.Now().Add(20 * time.Second)
				for atomic.LoadInt64(&sendsDone) < int64(k*n/(reconnects+1)) && time.Now().Before(dl) {
					time.Sleep(500 * time.Microsecond)
				}
				ep := gw.Epoch()
				if k%2 == 1 {
					gw.Disconnect()
				} else {
					gw.FailNextHeartbeat()
				}
				dl = time.Now().Add(5 * time.Second)
				for gw.Epoch() == ep && time.Now().Before(dl) {
					time.Sleep(200 * time.Microsecond)
				}
				if gw.Epoch() == ep {
					return
				}
				atomic.AddInt64(&nReconnects, 1)
			}
		}()
	}
	done := make(chan struct{})
	go func() { wg.Wait(); close(done) }()
	select {
	case <-done:
	case <-time.After(time.Duration(n)*60*time.Millisecond + 30*time.Second):
		res.hung = true
		res.stacks = mon.LibGoroutines("knx-go/knx", "verif/internal/gateway", "main.randomRun")
	}
	gw.Flush()
	s.Quiesce(time.Second)
	// drain: wait (bounded) until every telegram the gateway saw acknowledged was read
	drainUntil := time.Now().Add(3 * time.Second)
	for time.Now().Before(drainUntil) {
		acked := 0
		for _, o := range gw.Out() {
			if o.Acked {
				acked++
			}
		}
		rmu.Lock()
		got := len(res.read)
		rmu.Unlock()
		if got >= acked {
			break
		}
		time.Sleep(200 * time.Microsecond)
	}
	time.Sleep(2 * R)
	close(stop)
	<-cons
	c.T.Close()
	res.log = s.Log()
	res.ops = tun.Ops(res.log)
	res.bus = gw.Bus()
	res.out = gw.Out()
	st := gw.NetStats()
	res.faults = st.Dropped + st.Duplicated + st.HeldBack
	statMu.Lock()
	appliedTotal["random-dropped"] += int64(st.Dropped)
	appliedTotal["random-duplicated"] += int64(st.Duplicated)
	appliedTotal["random-held"] += int64(st.HeldBack)
	statMu.Unlock()
	return res
}

type alIn struct{ ID uint32 }
type alOut struct {
	Pos int
	OK  bool
}

// judge applies the exactly-once / order oracle to one run.
func judge(res result) {
	atomic.AddInt64(&nScenarios, 1)
	r.Eval(1)
	if res.faults > 0 {
		r.DistinctStr(res.sig)
	}
	attrs := func(k string) map[string]string { return map[string]string{"pattern": k} }
	hist := func(ids ...uint32) map[string]interface{} {
		return map[string]interface{}{"scenario": res.sig, "telegrams": ids, "history": history(res, ids), "bus": busIDs(res.bus)}
	}
	if res.connFail != "" {
		// the initial connect is a precondition of the scenario, not its subject: a
		// response timeout there (a frozen process) leaves nothing to judge
		if n := atomic.AddInt64(&nConnFail, 1); n > 20 {
			r.Violate("connect.failed", nil, map[string]interface{}{"scenario": res.sig}, "the initial connect failed in %d scenarios (last: %s)", n, res.connFail)
		} else {
			r.Inconclusive(fmt.Sprintf("[%s] initial connect failed (%s); scenario not run", res.sig, res.connFail))
		}
		return
	}
	if res.noReconnect != "" {
		r.Violate("reconnect.missing", nil, hist(), "[%s] %s", res.sig, res.noReconnect)
		return
	}
	if res.hung {
		h := hist()
		h["goroutines"] = res.stacks
		r.Violate("exchange.hang", nil, h, "[%s] the exchanges did not finish within the hang bound", res.sig)
		return
	}
	atomic.AddInt64(&nSends, int64(len(res.ops)))
	atomic.AddInt64(&nBus, int64(len(res.bus)))
	atomic.AddInt64(&nInbound, int64(len(res.read)))
	// bus positions
	pos := map[uint32][]int{}
	for i, b := range res.bus {
		pos[b.ID] = append(pos[b.ID], i)
	}
	byID := map[uint32]*tun.SendOp{}
	for _, o := range res.ops {
		byID[o.ID] = o
	}
	// (2) nothing on the bus twice, nothing unknown
	for id, ps := range pos {
		if len(ps) > 1 {
			r.Violate("bus.duplicate", attrs("other"), hist(id), "[%s] telegram %d was put on the bus %d times", res.sig, id, len(ps))
		}
		if byID[id] == nil {
			r.Violate("bus.unknown", attrs("other"), hist(id), "[%s] the bus carries telegram %d which no Send submitted", res.sig, id)
		}
	}
	// (1) every successful Send is on the bus
	sorted := append([]*tun.SendOp(nil), res.ops...)
	sort.Slice(sorted, func(i, j int) bool { return sorted[i].CallIdx < sorted[j].CallIdx })
	known := map[uint32]bool{}
	for _, o := range sorted {
		if !o.OK() || len(pos[o.ID]) > 0 {
			continue
		}
		// classify: number reuse after a timed-out Send whose request did reach the gateway
		pattern := "other"
		// the Sends that went out before this one on the same channel, latest first
		var before []*tun.SendOp
		for _, a := range sorted {
			if a != o && len(a.Frames) > 0 && len(o.Frames) > 0 && a.Frames[0] < o.Frames[0] && a.Channel == o.Channel {
				before = append(before, a)
			}
		}
		sort.Slice(before, func(i, j int) bool { return before[i].Frames[0] > before[j].Frames[0] })
		var prev *tun.SendOp
		// walk back over the run of timed-out Sends that carried the same number;
		// the pattern holds if one of them did reach the gateway (is on the bus)
		for _, a := range before {
			if !(a.TimedOut() && a.Seq == o.Seq) {
				break
			}
			if prev == nil {
				prev = a
			}
			if len(pos[a.ID]) == 1 {
				pattern = "number-reuse-after-timeout"
				prev = a
				break
			}
		}
		if pattern != "other" {
			known[o.ID] = true
			atomic.AddInt64(&nPhantomKnown, 1)
		}
		ids := []uint32{o.ID}
		if prev != nil {
			ids = append(ids, prev.ID)
		}
		r.Violate("bus.phantom-success", attrs(pattern), hist(ids...), "[%s] Send of telegram %d returned nil but the gateway never put it on the bus (pattern: %s)", res.sig, o.ID, pattern)
	}
	// (3) bus order vs real-time order of the Sends that are on the bus
	type ob struct {
		o *tun.SendOp
		p int
	}
	var obs []ob
	for _, o := range res.ops {
		if len(pos[o.ID]) == 1 && o.RetIdx >= 0 {
			obs = append(obs, ob{o, pos[o.ID][0]})
		}
	}
	sort.Slice(obs, func(i, j int) bool { return obs[i].p < obs[j].p })
	// for bus-ordered ops: no later op may have returned before an earlier one was called... (a precedes b in real time => pos a < pos b)
	maxCall := -1
	var maxOp *tun.SendOp
	for _, x := range obs {
		// every op already seen (smaller bus position) must not have been CALLED after x RETURNED
		if maxOp != nil && maxCall > x.o.RetIdx {
			r.Violate("bus.order", attrs("other"), hist(x.o.ID, maxOp.ID), "[%s] telegram %d is on the bus after telegram %d although its Send had returned before that one's Send was called", res.sig, x.o.ID, maxOp.ID)
			break
		}
		if x.o.CallIdx > maxCall {
			maxCall, maxOp = x.o.CallIdx, x.o
		}
	}
	// porcupine: append-log model, per epoch (epoch = gateway's)
	parts := map[int][]porcupine.Operation{}
	epochOf := map[uint32]int{}
	for _, b := range res.bus {
		epochOf[b.ID] = b.Epoch
	}
	first := map[int]int{}
	for i, b := range res.bus {
		if _, ok := first[b.Epoch]; !ok {
			first[b.Epoch] = i
		}
	}
	for _, o := range res.ops {
		if o.RetIdx < 0 || known[o.ID] {
			continue
		}
		p, ep := -1, 1
		if len(pos[o.ID]) >= 1 {
			ep = epochOf[o.ID]
			p = pos[o.ID][0] - first[ep]
		}
		parts[ep] = append(parts[ep], porcupine.Operation{ClientId: o.G % 64, Input: alIn{o.ID}, Call: int64(o.CallIdx), Return: int64(o.RetIdx), Output: alOut{p, o.OK()}})
	}
	model := porcupine.Model{
		Init: func() interface{} { return 0 },
		Step: func(st, in, out interface{}) (bool, interface{}) {
			n, o := st.(int), out.(alOut)
			if o.Pos < 0 {
				return !o.OK, n
			}
			return o.Pos == n, n + 1
		},
	}
	verdict := "ok"
	for _, p := range parts {
		switch porcupine.CheckOperationsTimeout(model, p, 20*time.Second) {
		case porcupine.Illegal:
			verdict = "illegal"
		case porcupine.Unknown:
			if verdict == "ok" {
				verdict = "unknown"
			}
		}
	}
	statMu.Lock()
	porc[verdict]++
	statMu.Unlock()
	if verdict == "illegal" {
		r.Violate("bus.not-linearizable", attrs("other"), hist(), "[%s] the Send history and the bus log are not linearizable against the append-log model (a successful Send must occupy exactly one bus position, consistent with real-time order)", res.sig)
	} else if verdict == "unknown" {
		r.Inconclusive("porcupine timed out: " + res.sig)
	}
	// (4) gateway -> client
	readCount := map[uint32]int{}
	for _, id := range res.read {
		readCount[id]++
	}
	sent := map[uint32]bool{}
	for _, o := range res.out {
		sent[o.ID] = true
		if o.Acked && readCount[o.ID] == 0 {
			r.Violate("inbound.lost", attrs("other"), hist(o.ID), "[%s] the gateway obtained an acknowledgement for telegram %d (number %d) but the application never received it", res.sig, o.ID, o.Seq)
		}
	}
	// ... and in the gateway's order (the application side keeps the order of
	// acceptance since the repair recorded for C17)
	outPos := map[uint32]int{}
	for i, o := range res.out {
		if _, ok := outPos[o.ID]; !ok {
			outPos[o.ID] = i
		}
	}
	last, lastID := -1, uint32(0)
	for _, id := range res.read {
		p, ok := outPos[id]
		if !ok {
			continue
		}
		if p < last {
			r.Violate("inbound.order", attrs("other"), hist(id, lastID), "[%s] the application received telegram %d after telegram %d although the gateway sent (and had acknowledged) them in the opposite order", res.sig, id, lastID)
			break
		}
		last, lastID = p, id
	}
	for id, k := range readCount {
		if k > 1 {
			r.Violate("inbound.duplicate", attrs("other"), hist(id), "[%s] telegram %d was delivered to the application %d times", res.sig, id, k)
		}
		if !sent[id] {
			r.Violate("inbound.unknown", attrs("other"), hist(id), "[%s] the application received telegram %d which the gateway never sent", res.sig, id)
		}
	}
	if r.WantSample() && res.faults > 2 {
		r.Sample(map[string]interface{}{"scenario": res.sig, "sends": summarize(res.ops), "bus": busIDs(res.bus), "inbound_read": res.read, "faults_applied": res.faults})
	}
}

func summarize(ops []*tun.SendOp) []string {
	var out []string
	for i, o := range ops {
		if i >= 8 {
			break
		}
		out = append(out, fmt.Sprintf("id=%d seq=%d copies=%d -> %s", o.ID, o.Seq, len(o.Frames), o.Err))
	}
	return out
}

func busIDs(b []gateway.BusEntry) []uint32 {
	var out []uint32
	for i, e := range b {
		if i >= 40 {
			break
		}
		out = append(out, e.ID)
	}
	return out
}

func history(res result, ids []uint32) []string {
	want := map[uint32]bool{}
	for _, id := range ids {
		want[id] = true
	}
	var out []string
	for _, e := range res.log {
		if len(out) > 80 {
			break
		}
		switch e.Kind {
		case memsock.Mark:
			var g int
			var id uint32
			if n, _ := fmt.Sscanf(strings.TrimPrefix(strings.TrimPrefix(e.Note, "call "), "ret "), "g=%d id=%d", &g, &id); n == 2 && (want[id] || len(ids) == 0) {
				out = append(out, fmt.Sprintf("%d %s", e.Idx, e.Note))
			}
		case memsock.Tx:
			if e.P.Service == spec.SvcTunnelReq {
				if id, _ := gateway.IDOfBytes(e.P.Cemi); want[id] || len(ids) == 0 {
					out = append(out, fmt.Sprintf("%d tx request ch=%d seq=%d id=%d", e.Idx, e.P.Channel, e.P.Seq, id))
				}
			}
			if e.P.Service == spec.SvcTunnelRes {
				out = append(out, fmt.Sprintf("%d tx ack ch=%d seq=%d", e.Idx, e.P.Channel, e.P.Seq))
			}
		case memsock.Rx:
			if e.P.Service == spec.SvcTunnelRes {
				out = append(out, fmt.Sprintf("%d rx ack ch=%d seq=%d status=%d taken=%v", e.Idx, e.P.Channel, e.P.Seq, e.P.Status, e.Taken))
			}
			if e.P.Service == spec.SvcTunnelReq {
				out = append(out, fmt.Sprintf("%d rx request ch=%d seq=%d taken=%v", e.Idx, e.P.Channel, e.P.Seq, e.Taken))
			}
		}
	}
	return out
}

func run(rr *mon.Run) {
	r = rr
	r.Rule("enumerated: per exchange a pattern of up to two leading faults from {L request lost, A ack lost, D ack duplicated, H ack held, R request duplicated, Q request held} and a terminal from {K healthy, X every ack lost, Y every request lost} (gateway->client: terminal K only); all 129 x 129 two-exchange patterns client->gateway (thorough; seeded subset in quick) crossed with sampled gateway->client patterns, sampled three- to six-exchange patterns; random: 600-Send runs with 1..8 senders, 12/10/10 % loss/duplication/hold-back both ways and 1200 concurrent gateway->client telegrams (every second run against a lagging application). Distinct = distinct scenario signatures in which at least one fault was actually applied")
	outPats := exchangePatterns(terminalsOut)
	inPats := exchangePatterns([]byte{fK})
	rng := rand.New(rand.NewSource(r.Seed()*977 + 3))
	type job struct{ ph []phase }
	pick := func(ps []string) string { return ps[rng.Intn(len(ps))] }
	kinds := []string{"disc", "hb"}
	var jobs []job
	if r.Thorough() {
		for _, a := range outPats {
			for _, b := range outPats {
				jobs = append(jobs, job{single([]string{a, b}, []string{inPats[rng.Intn(len(inPats))], inPats[rng.Intn(len(inPats))]})})
			}
		}
		// two epochs: every pattern in the last exchange before the reconnect x every
		// one- or no-fault pattern in the first exchange after it x both ways of ending
		// the connection; the same for the gateway->client direction
		short := []string{"K", "LK", "AK", "DK", "HK", "RK", "QK", "XK", "YK"}
		for _, a := range outPats {
			for _, b := range short {
				for _, k := range kinds {
					jobs = append(jobs, job{[]phase{{out: []string{a}, in: []string{pick(inPats)}, reconnect: k}, {out: []string{b}, in: []string{pick(inPats)}}}})
				}
			}
		}
		for _, a := range inPats {
			for _, b := range inPats {
				jobs = append(jobs, job{[]phase{{out: []string{pick(outPats)}, in: []string{a}, reconnect: kinds[rng.Intn(2)]}, {out: []string{"K"}, in: []string{b}}}})
			}
		}
		for i := 0; i < 6000; i++ {
			var ph []phase
			for e := 0; e < 2+i%3; e++ {
				p := phase{reconnect: kinds[rng.Intn(2)]}
				for j := 0; j < 1+rng.Intn(3); j++ {
					p.out = append(p.out, pick(outPats))
				}
				for j := 0; j < rng.Intn(4); j++ {
					p.in = append(p.in, pick(inPats))
				}
				ph = append(ph, p)
			}
			ph[len(ph)-1].reconnect = ""
			jobs = append(jobs, job{ph})
		}
		for i := 0; i < 12000; i++ {
			jobs = append(jobs, job{single([]string{outPats[rng.Intn(len(outPats))], outPats[rng.Intn(len(outPats))], outPats[rng.Intn(len(outPats))]},
				[]string{inPats[rng.Intn(len(inPats))], inPats[rng.Intn(len(inPats))], inPats[rng.Intn(len(inPats))]})})
		}
		// up to 6 telegrams per direction (sampled)
		for i := 0; i < 12000; i++ {
			k := 4 + i%3
			var o, in []string
			for j := 0; j < k; j++ {
				o = append(o, outPats[rng.Intn(len(outPats))])
				in = append(in, inPats[rng.Intn(len(inPats))])
			}
			jobs = append(jobs, job{single(o, in)})
		}
	} else {
		// every single-exchange pattern once, then a seeded subset of pairs / triples
		for _, a := range outPats {
			jobs = append(jobs, job{single([]string{a}, []string{inPats[rng.Intn(len(inPats))]})})
		}
		for _, a := range inPats {
			jobs = append(jobs, job{single([]string{"K"}, []string{a})})
		}
		// two epochs: every pattern in the only exchange before the reconnect, a lost
		// first request (even) or a seeded pattern (odd) right after it; the connection
		// ends by disconnect request or by a failed heartbeat in turn
		for i, a := range outPats {
			b := "LK"
			if i%2 == 1 {
				b = pick(outPats)
			}
			jobs = append(jobs, job{[]phase{{out: []string{a}, in: []string{pick(inPats)}, reconnect: kinds[(i/2)%2]}, {out: []string{b}, in: []string{pick(inPats)}}}})
		}
		for i, a := range inPats {
			jobs = append(jobs, job{[]phase{{out: []string{pick(outPats)}, in: []string{a}, reconnect: kinds[i%2]}, {out: []string{"K"}, in: []string{pick(inPats)}}}})
		}
		for i := 0; i < 120; i++ {
			var ph []phase
			for e := 0; e < 2+i%3; e++ {
				p := phase{reconnect: kinds[rng.Intn(2)]}
				for j := 0; j < 1+rng.Intn(3); j++ {
					p.out = append(p.out, pick(outPats))
				}
				for j := 0; j < rng.Intn(4); j++ {
					p.in = append(p.in, pick(inPats))
				}
				ph = append(ph, p)
			}
			ph[len(ph)-1].reconnect = ""
			jobs = append(jobs, job{ph})
		}
		for i := 0; i < 600; i++ {
			k := 2 + i%5
			var o, in []string
			for j := 0; j < k; j++ {
				o = append(o, outPats[rng.Intn(len(outPats))])
				in = append(in, inPats[rng.Intn(len(inPats))])
			}
			jobs = append(jobs, job{single(o, in)})
		}
	}
	r.Observe("enumerated_scenarios", len(jobs))
	if os.Getenv("C05_RANDOM_ONLY") != "" {
		jobs = nil
	}
	ch := make(chan job, len(jobs))
	for _, j := range jobs {
		ch <- j
	}
	close(ch)
	var wg sync.WaitGroup
	workers := runtime.GOMAXPROCS(0) / 2
	if workers < 2 {
		workers = 2
	}
	for w := 0; w < workers; w++ {
		wg.Add(1)
		go func() {
			defer wg.Done()
			for j := range ch {
				if r.Enough() {
					continue
				}
				r.Crumb("C05 enum %v", j.ph)
				judge(scenario(j.ph))
			}
		}()
	}
	wg.Wait()
	nr := r.Pick(6, 100)
	if v := os.Getenv("C05_RANDOM_ONLY"); v != "" {
		fmt.Sscan(v, &nr)
	}
	var slowest time.Duration
	for i := 0; i < nr && !r.Enough(); i++ {
		r.Crumb("C05 random %d", i)
		t0 := time.Now()
		res := randomRun(r.Seed()*5000+int64(i), []int{1, 4, 8, 2}[i%4], 600, []int{0, 5}[(i/2)%2])
		if d := time.Since(t0); d > slowest {
			slowest = d
		}
		nto := 0
		for _, o := range res.ops {
			if o.TimedOut() {
				nto++
			}
		}
		statMu.Lock()
		appliedTotal["random-send-timeouts"] += int64(nto)
		statMu.Unlock()
		if d := time.Since(t0); d > 20*time.Second {
			gu := 0
			for _, o := range res.out {
				if o.GaveUp {
					gu++
				}
			}
			r.Inconclusive(fmt.Sprintf("%s took %v (send timeouts %d, gateway give-ups %d)", res.sig, d, nto, gu))
		}
		judge(res)
	}
	r.Observe("slowest_random_run_s", slowest.Seconds())
	r.Observe("scenarios", nScenarios)
	r.Observe("sends", nSends)
	r.Observe("bus_entries", nBus)
	r.Observe("inbound_reads", nInbound)
	r.Observe("faults_applied_by_kind", appliedTotal)
	r.Observe("porcupine_verdicts", porc)
	r.Observe("phantom_success_known_pattern", nPhantomKnown)
	r.Observe("reconnects_between_exchanges", nReconnects)
	r.Assume("the gateway model (internal/gateway) follows the tunnelling rules; faults are applied to tunnelling frames only")
	r.Assume("the gateway assigns a fresh channel id to every connection: a datagram of an earlier connection that carries the current channel id and a current number is indistinguishable on the wire, so no client can satisfy the property against a gateway that reuses the id while old datagrams are still in flight")
	r.Assume("bounded fault patterns against the real modulus-256 client; the composed state space is sampled and enumerated to the stated bounds, not exhausted")
	if nBus == 0 || nInbound == 0 {
		r.Broken("nothing reached the bus / the application")
	}
}
