// C19 — datapoint registry: complete, correctly keyed, independent instances.
// Built with -race: the concurrent phase is decided by the race detector plus
// value assertions.
package main

import (
	"fmt"
	"go/ast"
	"go/parser"
	"go/token"
	"os"
	"path/filepath"
	"reflect"
	"regexp"
	"runtime"
	"sort"
	"strings"
	"sync"
	"sync/atomic"

	"github.com/vapourismo/knx-go/knx/dpt"

	"verif/internal/dptx"
	"verif/internal/mon"
	"verif/internal/spec"
)

func main() {
	mon.Main("C19", "exploration", mon.Options{Race: true, RaceFilter: func(rep mon.RaceReport) string {
		return "race"
	}}, run)
}

var nameRe = regexp.MustCompile(`^[0-9]+\.[0-9]{3}$`)

// repoDptDir locates /repo/knx/dpt through the replace directive's target.
func repoDptDir() string {
	if d := os.Getenv("VERIF_REPO"); d != "" {
		return filepath.Join(d, "knx", "dpt")
	}
	return "/repo/knx/dpt"
}

// sourceTypes parses the package source for exported DPT_* types that have
// the Datapoint method set (Pack, Unpack, Unit, String).
func sourceTypes() (map[string]bool, error) {
	fset := token.NewFileSet()
	pkgs, err := parser.ParseDir(fset, repoDptDir(), func(fi os.FileInfo) bool { return !strings.HasSuffix(fi.Name(), "_test.go") }, 0)
	if err != nil {
		return nil, err
	}
	types := map[string]bool{}
	methods := map[string]map[string]bool{}
	for _, p := range pkgs {
		for _, f := range p.Files {
			for _, decl := range f.Decls {
				switch dd := decl.(type) {
				case *ast.GenDecl:
					for _, s := range dd.Specs {
						if ts, ok := s.(*ast.TypeSpec); ok && strings.HasPrefix(ts.Name.Name, "DPT_") {
							types[ts.Name.Name] = true
						}
					}
				case *ast.FuncDecl:
					if dd.Recv == nil || len(dd.Recv.List) != 1 {
						continue
					}
					t := dd.Recv.List[0].Type
					if st, ok := t.(*ast.StarExpr); ok {
						t = st.X
					}
					if id, ok := t.(*ast.Ident); ok {
						if methods[id.Name] == nil {
							methods[id.Name] = map[string]bool{}
						}
						methods[id.Name][dd.Name.Name] = true
					}
				}
			}
		}
	}
	out := map[string]bool{}
	for t := range types {
		m := methods[t]
		if m["Pack"] && m["Unpack"] && m["Unit"] && m["String"] {
			out[t] = true
		}
	}
	return out, nil
}

// payloadFor returns a non-zero payload the type accepts.
func payloadFor(name string, k int) []byte {
	d, err := spec.Lookup(name)
	if err != nil {
		return nil
	}
	switch d.Family {
	case spec.B1:
		return []byte{1}
	case spec.Time:
		return []byte{0, byte(1<<5 | (1 + k%20)), byte(1 + k%50), byte(1 + k%50)}
	case spec.Date:
		return []byte{0, byte(1 + k%27), byte(1 + k%12), byte(1 + k%80)}
	case spec.Str14:
		p := make([]byte, 15)
		copy(p[1:], fmt.Sprintf("v%d", k))
		return p
	case spec.UTF8:
		return append(append([]byte{0}, []byte(fmt.Sprintf("v%d", k))...), 0)
	case spec.XYY:
		return []byte{0, 1, byte(k), 2, byte(k), 3, 3}
	case spec.RGBW:
		return []byte{0, 1, byte(k), 2, byte(k), 0, 15}
	case spec.F16:
		return []byte{0, 0x01, byte(1 + k%200)}
	case spec.F32:
		return []byte{0, 0x40, byte(k), 0, 1}
	}
	p := make([]byte, d.Len)
	for i := 1; i < len(p); i++ {
		p[i] = byte(1 + (k+i)%60)
	}
	return p
}

func run(r *mon.Run) {
	r.Rule("all registered names (Produce, name syntax, uniqueness, dynamic type DPT_<main><sub>), all exported DPT_* types with the Datapoint method set found by parsing the package source, unknown-name strings, instance independence (decode into one instance, compare others / later Produce calls / the list), and 16 goroutines released together x Produce/Unpack/ListSupportedTypes under the race detector (own name sequences, then same-name contention on four hot names; dynamic type and zero value of every produced instance; kept instances pairwise distinct objects). Distinct = distinct (check kind, name or string); non-trivial = every case")
	names := dptx.Names()
	listed := map[string]int{}
	for _, n := range dpt.ListSupportedTypes() {
		listed[n]++
	}
	r.Observe("registered_names", len(names))
	reachable := map[string]string{}
	for _, n := range names {
		r.Eval(1)
		r.DistinctStr("name|" + n)
		if listed[n] != 1 {
			r.Violate("name.duplicate", map[string]string{"name": n}, n, "name %q is listed %d times", n, listed[n])
		}
		d, ok := dpt.Produce(n)
		if !ok || d == nil {
			r.Violate("name.unproducible", map[string]string{"name": n}, n, "listed name %q cannot be produced", n)
			continue
		}
		if !nameRe.MatchString(n) {
			r.Violate("name.syntax", map[string]string{"name": n}, n, "listed name %q is not of the form main.sub with a three-digit sub-number", n)
		}
		rt := reflect.TypeOf(d)
		want := "DPT_" + strings.ReplaceAll(n, ".", "")
		if rt.Kind() != reflect.Ptr || rt.Elem().Name() != want || rt.Elem().PkgPath() != "github.com/vapourismo/knx-go/knx/dpt" {
			r.Violate("name.type", map[string]string{"name": n}, n, "name %q yields dynamic type %v, expected *dpt.%s", n, rt, want)
		}
		if rt.Kind() == reflect.Ptr {
			reachable[rt.Elem().Name()] = n
			// fresh zero value
			if !reflect.ValueOf(d).Elem().IsZero() {
				r.Violate("instance.nonzero", map[string]string{"name": n}, n, "Produce(%q) is not a zero value: %s", n, dptx.Show(d))
			}
		}
		if r.WantSample() {
			r.Sample(map[string]string{"name": n, "type": fmt.Sprint(rt)})
		}
	}
	// source completeness
	src, err := sourceTypes()
	if err != nil {
		r.Inconclusive("cannot parse package source: " + err.Error())
	} else {
		r.Observe("exported_DPT_types_in_source", len(src))
		var tn []string
		for t := range src {
			tn = append(tn, t)
		}
		sort.Strings(tn)
		for _, t := range tn {
			r.Eval(1)
			r.DistinctStr("src|" + t)
			if _, ok := reachable[t]; !ok {
				r.Violate("type.unreachable", map[string]string{"type": t}, t, "exported datapoint type %s is not reachable through the registry", t)
			}
		}
		if len(src) == 0 {
			r.Broken("no DPT_* types found in source")
		}
	}
	// unknown names
	unknown := []string{"", " ", "1", "1.", ".001", "1.1", "1.0001", "01.001", "1.001 ", " 1.001", "1,001", "1.00a", "DPT_1001", "1001", "0.000", "255.255", "9.9", "9.0010", "14.12000", "1.001\x00", "１.001"}
	for i := 0; i < r.Pick(20000, 500000); i++ {
		unknown = append(unknown, fmt.Sprintf("%d.%03d", r.Rand.Intn(300), r.Rand.Intn(1300)))
		unknown = append(unknown, fmt.Sprintf("%d.%d", r.Rand.Intn(30), r.Rand.Intn(100)))
	}
	for _, u := range unknown {
		r.Eval(1)
		r.DistinctStr("unk|" + u)
		d, ok := dpt.Produce(u)
		if _, isListed := listed[u]; isListed {
			continue
		}
		if ok || d != nil {
			r.Violate("unknown.produced", map[string]string{"name": u}, u, "unknown name %q was produced (ok=%v, value=%v)", u, ok, d)
		}
	}
	// independence, sequential
	listBefore := dptx.Names()
	for k, n := range names {
		r.Eval(1)
		r.DistinctStr("indep|" + n)
		a, b := dptx.New(n), dptx.New(n)
		if a == nil || b == nil {
			continue
		}
		if reflect.ValueOf(a).Pointer() == reflect.ValueOf(b).Pointer() {
			r.Violate("instance.shared", map[string]string{"name": n}, n, "two Produce(%q) calls returned the same pointer", n)
			continue
		}
		p := payloadFor(n, k)
		if p == nil {
			r.Inconclusive("no payload known for " + n)
			continue
		}
		if err, pan := dptx.Unpack(a, p); err != nil || pan != "" {
			r.Inconclusive(fmt.Sprintf("probe payload %x rejected by %s: %v %s", p, n, err, pan))
			continue
		}
		if reflect.ValueOf(a).Elem().IsZero() {
			r.Inconclusive(fmt.Sprintf("probe payload %x decodes to the zero value for %s", p, n))
			continue
		}
		c := dptx.New(n)
		if !reflect.ValueOf(b).Elem().IsZero() || !reflect.ValueOf(c).Elem().IsZero() {
			r.Violate("instance.dependent", map[string]string{"name": n}, n, "decoding %x into one %s instance changed another (%s) or a later Produce (%s)", p, n, dptx.Show(b), dptx.Show(c))
		}
	}
	if !reflect.DeepEqual(listBefore, dptx.Names()) {
		r.Violate("list.changed", nil, nil, "ListSupportedTypes changed after decoding into instances")
	}
	// concurrent phase: 16 goroutines released together; in the first half every
	// goroutine walks its own sequence of names, in the second half all of them
	// hammer the same few names (same-name contention). Every produced instance
	// must have the type its name bears and be zero; every instance stays with
	// its owner; afterwards all instances kept alive must be pairwise distinct
	// objects (an allocator handing out one object twice shows up here even if
	// no overwrite happened to be observed).
	G := 16
	rounds := r.Pick(1500, 20000)
	var wg sync.WaitGroup
	var ops int64
	hot := []string{names[0], names[len(names)/3], names[len(names)/2], names[len(names)-1]}
	start := make(chan struct{})
	kept := make([][]dpt.Datapoint, G)
	keptName := make([][]string, G)
	typeOK := func(n string, d dpt.Datapoint) bool {
		rt := reflect.TypeOf(d)
		return rt.Kind() == reflect.Ptr && rt.Elem().Name() == "DPT_"+strings.ReplaceAll(n, ".", "")
	}
	for g := 0; g < G; g++ {
		wg.Add(1)
		go func(g int) {
			defer wg.Done()
			<-start
			for i := 0; i < rounds; i++ {
				n := names[(g*31+i*7)%len(names)]
				if i >= rounds/2 {
					n = hot[(i/4)%len(hot)]
				}
				a := dptx.New(n)
				if a == nil {
					r.Violate("produce.failed", map[string]string{"name": n}, n, "concurrent: Produce(%q) reported the registered name as unknown", n)
					continue
				}
				if !typeOK(n, a) {
					r.Violate("produce.type", map[string]string{"name": n}, n, "concurrent: Produce(%q) yielded a %s", n, reflect.TypeOf(a))
					continue
				}
				if !reflect.ValueOf(a).Elem().IsZero() {
					r.Violate("instance.dependent", map[string]string{"name": n}, n, "concurrent: Produce(%q) yielded the non-zero value %s", n, dptx.Show(a))
				}
				if i%8 == 0 && len(kept[g]) < 4000 {
					kept[g] = append(kept[g], a)
					keptName[g] = append(keptName[g], n)
				}
				p := payloadFor(n, g*1000+i)
				if p != nil {
					if err, pan := dptx.Unpack(a, p); err == nil && pan == "" {
						b := dptx.New(n)
						if b != nil && typeOK(n, b) && !reflect.ValueOf(b).Elem().IsZero() {
							r.Violate("instance.dependent", map[string]string{"name": n}, n, "concurrent: Produce(%q) yielded non-zero %s after another goroutine decoded %x", n, dptx.Show(b), p)
						}
						// our own instance must still hold our value
						c := dptx.New(n)
						if c != nil && typeOK(n, c) {
							dptx.Unpack(c, p)
							if !dptx.Equal(a, c) {
								r.Violate("instance.dependent", map[string]string{"name": n}, n, "concurrent: instance of %q changed under its owner", n)
							}
						}
					}
				}
				if i%16 == 0 {
					if len(dpt.ListSupportedTypes()) != len(names) {
						r.Violate("list.changed", nil, nil, "concurrent: ListSupportedTypes length changed")
					}
				}
				atomic.AddInt64(&ops, 1)
				if i%8 == 0 {
					runtime.Gosched()
				}
			}
		}(g)
	}
	close(start)
	wg.Wait()
	seenPtr := map[uintptr]string{}
	keptTotal := 0
	for g := range kept {
		for i, d := range kept[g] {
			keptTotal++
			ptr := reflect.ValueOf(d).Pointer()
			if reflect.TypeOf(d).Elem().Size() == 0 {
				continue // zero-size values may legitimately share an address
			}
			if other, dup := seenPtr[ptr]; dup {
				r.Violate("instance.shared", map[string]string{"name": keptName[g][i]}, keptName[g][i], "concurrent: two Produce calls (%q and %q) returned the same object", keptName[g][i], other)
				break
			}
			seenPtr[ptr] = keptName[g][i]
		}
	}
	runtime.KeepAlive(kept)
	r.Observe("concurrent_instances_checked_pairwise_distinct", keptTotal)
	r.Eval(ops)
	r.Observe("concurrent_goroutines", G)
	r.Observe("concurrent_ops", ops)
	r.Exhaustive(true)
	r.Assume("the Go race detector reports unsynchronised accesses only on executed paths")
}
