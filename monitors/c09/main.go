// C09 — heartbeat detects a dead or lost connection and reconnects cleanly.
//
// The real tunnel client runs on an in-memory socket against a scripted
// gateway that places, over up to five connection epochs, every ending cause
// (silence, every non-zero status, foreign-channel answers only, disconnect
// request, disconnect response) and every reconnect outcome (accepted,
// busy-then-accepted, lost-then-accepted, refused, unanswered, busy forever),
// with noise frames for foreign channels, concurrent Sends and inbound
// traffic. Oracle: a trace state machine over the wire log with sync points.
package main

import (
	"sort"
	"fmt"
	"math/rand"
	"strings"
	"sync"
	"sync/atomic"
	"time"

	"github.com/vapourismo/knx-go/knx"
	"github.com/vapourismo/knx-go/knx/knxnet"
	"github.com/vapourismo/knx-go/knx/util"

	"verif/internal/gateway"
	"verif/internal/memsock"
	"verif/internal/mon"
	"verif/internal/spec"
	"verif/internal/tun"
)

func main() {
	mon.Main("C09", "fault_enumeration", mon.Options{QuickTimeout: 25 * time.Minute, ThoroughTimeout: 150 * time.Minute}, run)
}

var r *mon.Run

type epochScript struct {
	Healthy   int    // heartbeat exchanges answered OK before the cause
	WithholdK int    // healthy answers are withheld until this many copies were seen
	Cause     string // silent | status | foreign | discreq | discres | close
	Status    uint8
	Noise     bool   // inject foreign-channel DiscReq / DiscRes / ConnStateRes while healthy
	Reconnect string // ok | busy-ok | lost-ok | refused | unanswered | busy-forever
	ReStatus  uint8
}

func (e epochScript) String() string {
	s := fmt.Sprintf("%dx%d/%s", e.Healthy, e.WithholdK, e.Cause)
	if e.Cause == "status" {
		s += fmt.Sprintf("(%#02x)", e.Status)
	}
	if e.Noise {
		s += "+noise"
	}
	if e.Cause != "discres" && e.Cause != "close" {
		s += ">" + e.Reconnect
		if e.Reconnect == "refused" {
			s += fmt.Sprintf("(%#02x)", e.ReStatus)
		}
	}
	return s
}

func terminalRecon(s string) bool { return s == "refused" || s == "unanswered" || s == "busy-forever" }

type timing struct{ H, R, T time.Duration }

var nStarved, nNumberedChannels int64

var (
	nScripts, nEpochs, nHeartbeats, nReconnects, nTerminal, nStaleKnown, nSendsOK, nSendsErr int64
	causeCount                                                                            = map[string]int64{}
	promptness                                                                            = map[string]float64{} // worst observed delay per cause, ms
	statMu                                                                                sync.Mutex
)

type safeLogger struct {
	mu sync.Mutex
	n  int
}

func (l *safeLogger) Printf(format string, args ...interface{}) {
	s := fmt.Sprintf(format, args...)
	l.mu.Lock()
	l.n += len(s)
	l.mu.Unlock()
}

func chanOf(epoch int) uint8 { return uint8(0x10 + 0x11*epoch) }

// in same-channel scripts the gateway grants the same channel id on every connect
func chanFor(same bool, epoch int) uint8 {
	if same {
		return 0x5c
	}
	return chanOf(epoch)
}

// runScript executes one script and judges the trace.
func runScript(id int, script []epochScript, tm timing, can *mon.Canary) {
	same := id%3 == 2
	sig := fmt.Sprintf("H=%v R=%v T=%v same-channel=%v [", tm.H, tm.R, tm.T, same)
	for i, e := range script {
		if i > 0 {
			sig += " | "
		}
		sig += e.String()
	}
	sig += "]"
	r.Crumb("C09 script %d %s", id, sig)
	attrs := func(k string) map[string]string { return map[string]string{"class": k} }
	s := memsock.New("udp")
	var mu sync.Mutex
	epoch := 0          // index into script of the current epoch (0-based), -1 before first connect
	phase := "connect0" // connect0 | healthy | cause | reconnecting | terminal | done
	var hbCopies, hbAnswered, connCopies int
	unexpectedConnReq := 0
	curCh := chanFor(same, 0)
	// the stall allowance is taken over this script's own lifetime (four scripts run side by
	// side; a freeze during an earlier script says nothing about this one)
	scriptStart := time.Now()
	stallHere := func() time.Duration { return can.StallSince(scriptStart) }
	slack := func() time.Duration { return 3*stallHere() + 20*time.Millisecond }
	// frames the scripted gateway sends are handed over by one goroutine, in the
	// order the handler produced them
	deliverQ := make(chan knxnet.Service, 4096)
	deliverStop := make(chan struct{})
	go func() {
		for {
			select {
			case x := <-deliverQ:
				s.Deliver(x)
			case <-deliverStop:
				return
			}
		}
	}()
	defer close(deliverStop)
	send := func(x knxnet.Service) {
		select {
		case deliverQ <- x:
		default:
		}
	}
	s.Handler = func(ev memsock.Event) {
		mu.Lock()
		defer mu.Unlock()
		p := ev.P
		switch p.Service {
		case spec.SvcConnReq:
			switch phase {
			case "connect0":
				phase = "healthy"
				hbCopies, hbAnswered = 0, 0
				send(&knxnet.ConnRes{Channel: curCh, Control: knxnet.HostInfo{Protocol: knxnet.UDP4}})
			case "reconnecting", "cause":
				phase = "reconnecting"
				connCopies++
				e := script[epoch]
				okRes := func() {
					epoch++
					curCh = chanFor(same, epoch)
					phase = "syncing"
					hbCopies, hbAnswered = 0, 0
					ch := curCh
					send(&knxnet.ConnRes{Channel: ch, Control: knxnet.HostInfo{Protocol: knxnet.UDP4}})
				}
				switch e.Reconnect {
				case "ok":
					okRes()
				case "busy-ok":
					if connCopies <= 2 {
						st := []uint8{0x24, 0x25}[connCopies-1]
						send(&knxnet.ConnRes{Status: knxnet.ErrCode(st)})
					} else {
						okRes()
					}
				case "lost-ok":
					if connCopies > 2 {
						okRes()
					}
				case "refused":
					if connCopies == 1 {
						st := e.ReStatus
						send(&knxnet.ConnRes{Status: knxnet.ErrCode(st)})
					}
				case "busy-forever":
					send(&knxnet.ConnRes{Status: 0x24})
				case "unanswered":
				}
			case "syncing":
				// retransmission of a connect request already answered
			default:
				// a connect request before the epoch's first heartbeat request is the
				// retransmission of the one already answered (the client took the
				// response late)
				if hbCopies > 0 || hbAnswered > 0 {
					unexpectedConnReq++
				}
			}
		case spec.SvcConnStateReq:
			if phase != "healthy" && phase != "cause" {
				return
			}
			e := script[epoch]
			if phase == "healthy" {
				hbCopies++
				k := e.WithholdK
				if k < 1 {
					k = 1
				}
				if hbCopies >= k {
					hbCopies = 0
					hbAnswered++
					ch := p.Channel
					dup := e.Noise
					send(&knxnet.ConnStateRes{Channel: ch})
					if dup {
						// a duplicated answer (or a gateway answering every copy): the
						// surplus must not satisfy a later heartbeat
						send(&knxnet.ConnStateRes{Channel: ch})
					}
				}
				return
			}
			switch e.Cause {
			case "status":
				ch, st := p.Channel, e.Status
				send(&knxnet.ConnStateRes{Channel: ch, Status: knxnet.ErrCode(st)})
			case "foreign":
				ch := p.Channel + 1
				send(&knxnet.ConnStateRes{Channel: ch})
			}
		case spec.SvcTunnelReq:
			// a gateway that has fallen silent does not acknowledge telegrams either: a Send
			// can then be pending when the heartbeat fails and the reconnect starts
			if (phase == "healthy" || (phase == "cause" && script[epoch].Cause != "silent")) && p.Channel == curCh {
				ch, sq := p.Channel, p.Seq
				send(&knxnet.TunnelRes{Channel: ch, SeqNumber: sq})
			}
		case spec.SvcDiscReq:
			ch := p.Channel
			send(&knxnet.DiscRes{Channel: ch})
		}
	}
	getPhase := func() (string, int, int, uint8) {
		mu.Lock()
		defer mu.Unlock()
		return phase, epoch, hbAnswered, curCh
	}
	setPhase := func(p string) { mu.Lock(); phase = p; connCopies = 0; mu.Unlock() }

	c, err := tun.Start(s, knx.TunnelConfig{ResendInterval: tm.R, HeartbeatInterval: tm.H, ResponseTimeout: tm.T})
	if err != nil {
		r.Violate("connect.failed", nil, map[string]interface{}{"script": sig}, "initial connect failed: %v", err)
		return
	}
	defer c.T.Close()
	// consumer
	inboundClosed := make(chan struct{})
	var readIDs []uint32
	var rmu sync.Mutex
	go func() {
		for m := range c.T.Inbound() {
			id, _ := gateway.IDOfMessage(m)
			rmu.Lock()
			readIDs = append(readIDs, id)
			rmu.Unlock()
		}
		close(inboundClosed)
	}()
	// background sender
	stopSend := make(chan struct{})
	sendDone := make(chan struct{})
	var sendID uint32
	var pause atomic.Bool
	// two senders: one can be waiting for the send lock while the other one's request is
	// unacknowledged and a reconnect is under way
	var sendWG sync.WaitGroup
	for g := 0; g < 2; g++ {
		sendWG.Add(1)
		go func(g int) {
			defer sendWG.Done()
			for {
				select {
				case <-stopSend:
					return
				default:
				}
				if pause.Load() {
					time.Sleep(tm.R)
					continue
				}
				id := atomic.AddUint32(&sendID, 1)
				if err := c.Send(2*g, id); err == nil {
					atomic.AddInt64(&nSendsOK, 1)
				} else {
					atomic.AddInt64(&nSendsErr, 1)
				}
				time.Sleep(tm.R + time.Duration(g)*tm.R/2)
			}
		}(g)
	}
	go func() { sendWG.Wait(); close(sendDone) }()
	hang := 20*(tm.T+tm.H) + 5*time.Second
	// bounded hand-over: a client that has stopped taking frames is reported, not waited for
	stuck := false
	deliver := func(svc knxnet.Service) bool {
		if stuck {
			return false
		}
		taken, expired := s.DeliverTimeout(svc, hang)
		if expired {
			stuck = true
		}
		return taken
	}
	waitFor := func(cond func() bool, bound time.Duration) bool {
		dl := time.Now().Add(bound)
		for !cond() {
			if time.Now().After(dl) {
				return false
			}
			time.Sleep(300 * time.Microsecond)
		}
		return true
	}
	lastRxTaken := func(from int, svc uint16) (memsock.Event, bool) {
		log := s.LogFrom(from)
		for i := len(log) - 1; i >= 0; i-- {
			if log[i].Kind == memsock.Rx && log[i].Taken && log[i].P.Service == svc {
				return log[i], true
			}
		}
		return memsock.Event{}, false
	}
	firstTx := func(from int, svc uint16) (memsock.Event, bool) {
		for _, e := range s.LogFrom(from) {
			if e.Kind == memsock.Tx && !e.Err && e.P.Service == svc {
				return e, true
			}
		}
		return memsock.Event{}, false
	}
	// starved reports evidence in the log that timers were not served: two
	// consecutive copies of a pending connect / connection-state request further
	// apart than 4 resend intervals + 10 ms
	starved := func() (bool, time.Duration) {
		var prev memsock.Event
		have := false
		worst := time.Duration(0)
		for _, x := range s.Log() {
			if x.Kind != memsock.Tx || (x.P.Service != spec.SvcConnReq && x.P.Service != spec.SvcConnStateReq) {
				if x.Kind == memsock.Rx && x.Taken && (x.P.Service == spec.SvcConnRes || x.P.Service == spec.SvcConnStateRes) {
					have = false
				}
				continue
			}
			if have && prev.P.Service == x.P.Service && string(prev.Bytes) == string(x.Bytes) && x.T-prev.T < tm.T {
				if g := x.T - prev.T; g > worst {
					worst = g
				}
			}
			prev, have = x, true
		}
		return worst > 4*tm.R+10*time.Millisecond, worst
	}
	liveness := map[string]bool{"foreign.reaction": true, "reconnect.stuck": true, "reconnect.spurious": true, "heartbeat.missing": true, "reconnect.late": true, "heartbeat.gap": true, "epoch.inbound-number": true}
	fail := func(tag, class string, cs map[string]interface{}, format string, a ...interface{}) {
		if liveness[tag] {
			can.Settle()
			if w := can.StallSince(scriptStart); w > 4*tm.R+10*time.Millisecond {
				atomic.AddInt64(&nStarved, 1)
				r.Inconclusive(fmt.Sprintf("%s: %s not judged: the stall canary overslept by %v during this script", sig, tag, w))
				return
			}
			if st, worst := starved(); st {
				atomic.AddInt64(&nStarved, 1)
				r.Inconclusive(fmt.Sprintf("%s: %s not judged: the log shows retransmissions %v apart (resend interval %v): timers were starved", sig, tag, worst, tm.R))
				return
			}
		}
		if cs == nil {
			cs = map[string]interface{}{}
		}
		cs["script"] = sig
		cs["log_tail"] = tail(s.Log(), 45)
		r.Violate(tag, attrs(class), cs, "[%s] %s", sig, fmt.Sprintf(format, a...))
	}
	recordPrompt := func(cause string, d time.Duration) {
		statMu.Lock()
		if ms := float64(d) / 1e6; ms > promptness[cause] {
			promptness[cause] = ms
		}
		statMu.Unlock()
	}

	epochStartIdx := 0
	if e, ok := lastRxTaken(0, spec.SvcConnRes); ok {
		epochStartIdx = e.Idx
	}
	epochStartT := s.Now()
	prevCh := uint8(0)
	havePrev := false
	inboundSeq := uint8(0)
	nextInboundID := uint32(9000000 + id*1000)
	terminal := false
	terminalWhy := ""

	for ei := 0; ei < len(script) && !terminal; ei++ {
		e := script[ei]
		atomic.AddInt64(&nEpochs, 1)
		statMu.Lock()
		causeCount[e.Cause]++
		statMu.Unlock()
		_, _, _, ch := getPhase()
		// ---- healthy part: heartbeats must come at least every H
		healthyFrom := epochStartIdx
		if !waitFor(func() bool { _, _, a, _ := getPhase(); return a >= e.Healthy }, time.Duration(e.Healthy+1)*(tm.H+tm.T)+hang) {
			fail("heartbeat.missing", "other", nil, "epoch %d: fewer than %d heartbeat exchanges were observed within the hang bound: no connection-state request for the current channel", ei, e.Healthy)
			return
		}
		// inbound traffic + noise during the healthy part
		for k := 0; k < 3; k++ {
			nextInboundID++
			if !deliver(&knxnet.TunnelReq{Channel: ch, SeqNumber: inboundSeq, Payload: gateway.Ind(nextInboundID)}) {
				break
			}
			inboundSeq++
		}
		if stuck {
			fail("receive-loop.stuck", "other", nil, "epoch %d: the client stopped taking frames from its socket (a frame was not taken within the hang bound) although the script had not ended the tunnel", ei)
			return
		}
		if e.Noise {
			from := s.Len()
			deliver(&knxnet.DiscReq{Channel: ch + 7})
			deliver(&knxnet.DiscRes{Channel: ch + 7})
			deliver(&knxnet.ConnStateRes{Channel: ch + 7, Status: 0x21})
			deliver(&knxnet.TunnelRes{Channel: ch + 7, SeqNumber: 0})
			deliver(&knxnet.ConnStateRes{Channel: ch + 9}) // barrier: all earlier ones were processed once this is taken
			time.Sleep(tm.R)
			for _, x := range s.LogFrom(from) {
				if x.Kind == memsock.Tx && (x.P.Service == spec.SvcDiscRes || x.P.Service == spec.SvcConnReq) {
					fail("foreign.reaction", "other", nil, "epoch %d: a frame for a foreign channel triggered a %#04x frame", ei, x.P.Service)
					return
				}
			}
			select {
			case <-inboundClosed:
				fail("foreign.reaction", "other", nil, "epoch %d: a disconnect response for a foreign channel terminated the tunnel", ei)
				return
			default:
			}
		}
		// heartbeat spacing over the healthy window (a)
		{
			log := s.Log()
			prevT := epochStartT
			for _, x := range log[healthyFrom:] {
				if x.Kind == memsock.Tx && x.P.Service == spec.SvcConnStateReq && x.P.Channel == ch {
					atomic.AddInt64(&nHeartbeats, 1)
					if gap := x.T - prevT; gap > tm.H+slack() {
						if stallHere() > 250*time.Millisecond {
							r.Inconclusive(sig + ": scheduler stall during heartbeat spacing check")
						} else {
							fail("heartbeat.gap", "other", map[string]interface{}{"gap_ms": float64(gap) / 1e6}, "epoch %d: %v without a connection-state request for the current channel (heartbeat interval %v, slack %v)", ei, gap, tm.H, slack())
							return
						}
					}
					prevT = x.T
				}
			}
		}
		// (g) healthy epoch produced no connect request
		mu.Lock()
		uc := unexpectedConnReq
		mu.Unlock()
		if uc > 0 {
			// was every exchange really answered within the response timeout? (on a
			// loaded machine the copies that trigger a withheld answer can come late)
			log := s.Log()
			var first time.Duration = -1
			late := false
			for _, x := range log[healthyFrom:] {
				if x.Kind == memsock.Tx && x.P.Service == spec.SvcConnStateReq && first < 0 {
					first = x.T
				}
				if x.Kind == memsock.Rx && x.P.Service == spec.SvcConnStateRes && x.P.Channel == ch && x.P.Status == 0 && first >= 0 {
					if !x.Taken || x.TakenT-first > tm.T-tm.T/4 {
						late = true
					}
					first = -1
				}
			}
			if first >= 0 {
				late = true // an exchange was still open
			}
			if late {
				r.Inconclusive(sig + ": a heartbeat answer arrived later than 3/4 of the response timeout (loaded machine); spurious-reconnect check skipped")
				return
			}
			fail("reconnect.spurious", "other", nil, "epoch %d: a connect request was sent although every heartbeat was answered OK in time", ei)
			return
		}
		// ---- cause
		if same && e.Cause != "close" {
			// quiesce the sender so that every tunnelling request after the sync
			// point belongs to the new epoch (the channel id cannot tell them apart)
			pause.Store(true)
			time.Sleep(tm.T + 2*tm.R)
		}
		causeFrom := s.Len()
		causeT := s.Now()
		setPhase("cause")
		switch e.Cause {
		case "close":
			terminal, terminalWhy = true, "close"
			continue
		case "discreq":
			deliver(&knxnet.DiscReq{Channel: ch})
			causeT = s.Now()
		case "discres":
			setPhase("terminal")
			deliver(&knxnet.DiscRes{Channel: ch})
			causeT = s.Now()
			terminal, terminalWhy = true, "disconnect response for the current channel"
		default:
			// silent / status / foreign: the handler (phase "cause") now fails every
			// heartbeat exchange accordingly
		}
		if stuck {
			fail("receive-loop.stuck", "other", nil, "epoch %d: the client stopped taking frames from its socket (a frame was not taken within the hang bound) although the script had not ended the tunnel", ei)
			return
		}
		if e.Cause != "discres" {
			// the client must issue a fresh connect request (c, d)
			bound := hang
			if !waitFor(func() bool { _, found := firstTx(causeFrom, spec.SvcConnReq); return found }, bound) {
				fail("reconnect.missing", "other", map[string]interface{}{"cause": e.String()}, "epoch %d: no connect request followed %s within the hang bound %v", ei, e.Cause, bound)
				return
			}
			creq, _ := firstTx(causeFrom, spec.SvcConnReq)
			// promptness: silent/foreign: T after the first unanswered request; status/discreq: immediately
			var ref time.Duration
			switch e.Cause {
			case "silent", "foreign":
				if f, ok := firstTx(causeFrom, spec.SvcConnStateReq); ok {
					ref = f.T + tm.T
				} else {
					ref = causeT + tm.H + tm.T
				}
			case "status":
				if f, ok := firstTx(causeFrom, spec.SvcConnStateReq); ok {
					ref = f.T
				} else {
					ref = causeT + tm.H
				}
			default:
				ref = causeT
			}
			recordPrompt(e.Cause, creq.T-ref)
			if d := creq.T - ref; d > slack() && stallHere() <= 250*time.Millisecond {
				fail("reconnect.late", "other", map[string]interface{}{"delay_ms": float64(d) / 1e6}, "epoch %d: the connect request came %v after the point where the failure was established (cause %s, slack %v)", ei, d, e.Cause, slack())
				return
			}
			// (d) disconnect request for the current channel is answered first
			if e.Cause == "discreq" {
				dres, ok := firstTx(causeFrom, spec.SvcDiscRes)
				if !ok || dres.Idx > creq.Idx || dres.P.Channel != ch || dres.P.Status != 0 {
					fail("disconnect.response", "other", nil, "epoch %d: a disconnect request for the current channel %d was not answered with a disconnect response (same channel, status 0) before the connect request", ei, ch)
					return
				}
			}
			atomic.AddInt64(&nReconnects, 1)
			if terminalRecon(e.Reconnect) {
				terminal = true
				terminalWhy = "reconnect " + e.Reconnect
				causeT = creq.T
			} else {
				// wait for the sync point
				if !waitFor(func() bool { p, _, _, _ := getPhase(); return p == "syncing" }, hang) {
					// fewer than three connect requests within the response timeout means
					// the resend timer was starved (loaded machine), not a protocol fault
					n := 0
					for _, x := range s.LogFrom(causeFrom) {
						if x.Kind == memsock.Tx && x.P.Service == spec.SvcConnReq && x.T-creq.T < tm.T {
							n++
						}
					}
					if n < 3 && e.Reconnect != "ok" {
						r.Inconclusive(fmt.Sprintf("%s: only %d connect requests went out within the response timeout (loaded machine)", sig, n))
						return
					}
					fail("reconnect.stuck", "other", nil, "epoch %d: the reconnect (%s) did not reach an accepted connect response", ei, e.Reconnect)
					return
				}
				okConnRes := func() (memsock.Event, bool) {
					for _, x := range s.LogFrom(causeFrom) {
						if x.Kind == memsock.Rx && x.Taken && x.P.Service == spec.SvcConnRes && x.P.Status == 0 {
							return x, true
						}
					}
					return memsock.Event{}, false
				}
				if !waitFor(func() bool { _, ok := okConnRes(); return ok }, hang) {
					fail("reconnect.stuck", "other", nil, "epoch %d: the accepted connect response was not taken by the client", ei)
					return
				}
				cres, _ := okConnRes()
				_, _, _, nch := getPhase()
				// sync point: inbound request with the new channel and number 0
				f2 := s.Len()
				nextInboundID++
				deliver(&knxnet.TunnelReq{Channel: nch, SeqNumber: 0, Payload: gateway.Ind(nextInboundID)})
				if !waitFor(func() bool {
					for _, x := range s.LogFrom(f2) {
						if x.Kind == memsock.Tx && x.P.Service == spec.SvcTunnelRes && x.P.Channel == nch && x.P.Seq == 0 && x.P.Status == 0 {
							return true
						}
					}
					return false
				}, tm.T+hang) {
					fail("epoch.inbound-number", "other", nil, "epoch %d: after the reconnect an inbound tunnelling request with the new channel %d and number 0 was not acknowledged (receive numbering did not restart at 0)", ei+1, nch)
					return
				}
				inboundSeq = 1
				setPhase("healthy")
				prevCh, havePrev = ch, true
				epochStartIdx = cres.Idx
				// the new receive loop (and with it the heartbeat ticker) was started no
				// later than the moment it acknowledged the sync request
				epochStartT = s.Now()
				for _, x := range s.LogFrom(f2) {
					if x.Kind == memsock.Tx && x.P.Service == spec.SvcTunnelRes && x.P.Channel == nch && x.P.Seq == 0 {
						epochStartT = x.T
						break
					}
				}
				// (e) frames after the sync point carry the new channel
				syncIdx := s.Len()
				time.Sleep(2*tm.R + tm.H/2)
				eIdx := cres.Idx
				if same {
					eIdx = syncIdx
					pause.Store(false)
					time.Sleep(4 * tm.R)
				}
				if !checkAfterSync(s, c, sig, syncIdx, eIdx, nch, prevCh, havePrev && !same, tm, fail) {
					return
				}
			}
		}
	}
	// ---- end of script: terminal checks (f) or orderly close
	_ = prevCh
	if terminal && terminalWhy != "close" {
		atomic.AddInt64(&nTerminal, 1)
		bound := tm.T + slack() + hang
		select {
		case <-inboundClosed:
		case <-time.After(bound):
			fail("terminate.inbound-open", "other", map[string]interface{}{"why": terminalWhy}, "after %s the tunnel did not terminate: Inbound still open after %v", terminalWhy, bound)
			return
		}
		// pending Send ends with an error; later Sends fail promptly, never nil
		close(stopSend)
		select {
		case <-sendDone:
		case <-time.After(tm.T + hang):
			fail("terminate.send-hang", "other", nil, "after %s a pending Send never returned", terminalWhy)
			return
		}
		for k := 0; k < 3; k++ {
			t0 := time.Now()
			resCh := make(chan error, 1)
			go func() { resCh <- c.Send(1, 8000000+uint32(k)) }()
			select {
			case err := <-resCh:
				if err == nil {
					fail("terminate.send-succeeded", "other", nil, "after %s (Inbound closed) a later Send reported success", terminalWhy)
					return
				}
				if d := time.Since(t0); d > tm.T+slack() {
					fail("terminate.send-slow", "other", nil, "after termination a Send took %v to fail", d)
					return
				}
			case <-time.After(tm.T + hang):
				fail("terminate.send-hang", "other", nil, "after %s a later Send never returned", terminalWhy)
				return
			}
		}
		// no further connect request
		from := s.Len()
		time.Sleep(tm.H + 2*tm.R)
		if _, found := firstTx(from, spec.SvcConnReq); found {
			fail("terminate.reconnects", "other", nil, "after %s the client kept sending connect requests", terminalWhy)
			return
		}
	} else {
		close(stopSend)
		select {
		case <-sendDone:
		case <-time.After(tm.T + hang):
			fail("send.hang", "other", nil, "a Send never returned")
			return
		}
	}
	// channel and send counter change together: per channel the telegrams go out with
	// consecutive numbers from 0 (a number advances with an acknowledged request only),
	// whichever Send happened to be waiting while the reconnect was under way
	if !same {
		log := s.Log()
		byCh := map[uint8][]*tun.SendOp{}
		var order []uint8
		for _, o := range tun.Ops(log) {
			if len(o.Frames) == 0 {
				continue
			}
			if _, ok := byCh[o.Channel]; !ok {
				order = append(order, o.Channel)
			}
			byCh[o.Channel] = append(byCh[o.Channel], o)
		}
		for _, ch := range order {
			blocks := byCh[ch]
			sort.SliceStable(blocks, func(i, j int) bool { return blocks[i].Frames[0] < blocks[j].Frames[0] })
			next := uint8(0)
			for _, b := range blocks {
				if b.Seq != next {
					fail("epoch.send-numbering", "other", map[string]interface{}{"channel": ch, "telegram": b.ID, "first_frame_index": b.Frames[0]},
						"on channel %d telegram %d went out with sequence number %d, expected %d (a frame pairs one epoch's channel with another epoch's counter, or a number was skipped / reused)", ch, b.ID, b.Seq, next)
					return
				}
				if b.RetIdx >= 0 && (b.OK() || b.Rejected()) {
					next++
				}
			}
			atomic.AddInt64(&nNumberedChannels, 1)
		}
	}
	atomic.AddInt64(&nScripts, 1)
	r.Eval(1)
	r.DistinctStr(sig)
	if r.WantSample() && len(script) > 1 {
		r.Sample(map[string]interface{}{"script": sig, "wire_events": s.Len(), "epochs": len(script)})
	}
}

// checkAfterSync: every frame after the sync point carries the new channel;
// the first tunnelling request of a Send called after it has number 0.
func checkAfterSync(s *memsock.Sock, c *tun.Client, sig string, syncIdx, epochIdx int, nch, prevCh uint8, havePrev bool, tm timing,
	fail func(tag, class string, cs map[string]interface{}, format string, a ...interface{})) bool {
	log := s.Log()
	ops := tun.Ops(log)
	callOf := map[uint32]int{}
	for _, o := range ops {
		callOf[o.ID] = o.CallIdx
	}
	// the first tunnelling request on the new channel carries number 0
	for _, x := range log[epochIdx:] {
		if x.Kind == memsock.Tx && !x.Err && x.P.Service == spec.SvcTunnelReq && x.P.Channel == nch {
			if x.P.Seq != 0 {
				fail("epoch.send-number", "other", map[string]interface{}{"frame": fmt.Sprintf("%x", x.Bytes)}, "the first tunnelling request of the new epoch (channel %d) carries number %d, not 0", nch, x.P.Seq)
				return false
			}
			break
		}
	}
	stale := 0
	seenNewHB := false
	firstSeqChecked := false
	_ = firstSeqChecked
	maxStale := 2 * (int((tm.T+tm.H-1)/tm.H) + 1)
	for _, x := range log[syncIdx:] {
		if x.Kind != memsock.Tx || x.Err {
			continue
		}
		switch x.P.Service {
		case spec.SvcConnStateReq:
			if x.P.Channel == nch {
				seenNewHB = true
				continue
			}
			if havePrev && x.P.Channel == prevCh && !seenNewHB {
				stale++
				continue
			}
			fail("epoch.old-channel", "other", map[string]interface{}{"frame": fmt.Sprintf("%x", x.Bytes)}, "after the sync point of the new epoch a connection-state request carries channel %d (new channel %d)", x.P.Channel, nch)
			return false
		case spec.SvcTunnelRes, spec.SvcDiscReq:
			if x.P.Channel != nch {
				fail("epoch.old-channel", "other", map[string]interface{}{"frame": fmt.Sprintf("%x", x.Bytes)}, "after the sync point a %#04x frame carries channel %d (new channel %d)", x.P.Service, x.P.Channel, nch)
				return false
			}
		case spec.SvcTunnelReq:
			id, _ := gateway.IDOfBytes(x.P.Cemi)
			if ci, ok := callOf[id]; ok && ci > syncIdx {
				if x.P.Channel != nch {
					fail("epoch.old-channel", "other", map[string]interface{}{"frame": fmt.Sprintf("%x", x.Bytes)}, "a Send called after the sync point transmitted on channel %d (new channel %d)", x.P.Channel, nch)
					return false
				}
				firstSeqChecked = true
			}
		}
	}
	if stale > 0 {
		atomic.AddInt64(&nStaleKnown, int64(stale))
		class := "immediately-after-epoch-change"
		if stale > maxStale {
			class = "other"
		}
		r.Violate("epoch.stale-heartbeat", map[string]string{"class": class}, map[string]interface{}{"script": sig, "stale_frames": stale, "bound": maxStale},
			"[%s] %d connection-state request(s) with the previous epoch's channel %d went out after the sync point of the new epoch (channel %d), before the new epoch's first heartbeat", sig, stale, prevCh, nch)
		if class == "other" {
			return false
		}
	}
	return true
}

func tail(full []memsock.Event, n int) []string {
	// control-plane view: the background sender's traffic is left out
	var log []memsock.Event
	for _, e := range full {
		if e.Kind == memsock.Mark && (strings.HasPrefix(e.Note, "call ") || strings.HasPrefix(e.Note, "ret ")) {
			continue
		}
		if e.Kind == memsock.Tx && e.P.Service == spec.SvcTunnelReq {
			continue
		}
		if e.Kind == memsock.Rx && e.P.Service == spec.SvcTunnelRes {
			continue
		}
		log = append(log, e)
	}
	if len(log) > n {
		log = log[len(log)-n:]
	}
	var out []string
	for _, e := range log {
		if e.Kind == memsock.Mark {
			out = append(out, fmt.Sprintf("%d %.3fms %s", e.Idx, float64(e.T)/1e6, e.Note))
		} else {
			out = append(out, fmt.Sprintf("%d %.3fms %s svc=%#04x ch=%d seq=%d st=%d taken=%v", e.Idx, float64(e.T)/1e6, e.Kind, e.P.Service, e.P.Channel, e.P.Seq, e.P.Status, e.Taken))
		}
	}
	return out
}

var causes = []string{"silent", "status", "foreign", "discreq"}
var recons = []string{"ok", "busy-ok", "lost-ok"}
var reconsTerminal = []string{"refused", "unanswered", "busy-forever"}

func genScripts(rng *rand.Rand, thorough bool) [][]epochScript {
	var out [][]epochScript
	st := uint8(0)
	nextStatus := func() uint8 {
		st++
		if st == 0 {
			st = 1
		}
		return st
	}
	refuse := func() uint8 {
		for {
			x := nextStatus()
			if x != 0x24 && x != 0x25 {
				return x
			}
		}
	}
	mk := func(cause, recon string) epochScript {
		e := epochScript{Healthy: 1 + rng.Intn(2), WithholdK: 1 + 2*rng.Intn(2), Cause: cause, Reconnect: recon, Noise: rng.Intn(2) == 0}
		if cause == "status" {
			e.Status = nextStatus()
		}
		if recon == "refused" {
			e.ReStatus = refuse()
		}
		return e
	}
	// depth 1: every cause x every reconnect outcome, plus discres / close
	for _, c := range causes {
		for _, rc := range append(append([]string(nil), recons...), reconsTerminal...) {
			s := []epochScript{mk(c, rc)}
			if !terminalRecon(rc) {
				s = append(s, epochScript{Healthy: 2, WithholdK: 1, Cause: "close"})
			}
			out = append(out, s)
		}
	}
	out = append(out, []epochScript{mk("discres", "")}, []epochScript{{Healthy: 3, WithholdK: 3, Cause: "close", Noise: true}})
	// depth 2: all (cause, recon) x (cause, any recon)
	for _, c1 := range causes {
		for _, r1 := range recons {
			for _, c2 := range append(append([]string(nil), causes...), "discres") {
				for _, r2 := range append(append([]string(nil), recons...), reconsTerminal...) {
					if c2 == "discres" && r2 != "ok" {
						continue
					}
					s := []epochScript{mk(c1, r1), mk(c2, r2)}
					if c2 != "discres" && !terminalRecon(r2) {
						s = append(s, epochScript{Healthy: 1, WithholdK: 1, Cause: "close"})
					}
					out = append(out, s)
				}
			}
		}
	}
	// all 255 heartbeat statuses and all refusal statuses once
	if thorough {
		for i := 0; i < 255; i++ {
			out = append(out, []epochScript{mk("status", "ok"), mk("silent", "refused")})
		}
	}
	// sampled depth 3..5
	n := 20
	if thorough {
		n = 2500
	}
	for i := 0; i < n; i++ {
		d := 3 + rng.Intn(3)
		var s []epochScript
		for k := 0; k < d; k++ {
			last := k == d-1
			c := causes[rng.Intn(len(causes))]
			rc := recons[rng.Intn(len(recons))]
			if last {
				switch rng.Intn(3) {
				case 0:
					rc = reconsTerminal[rng.Intn(3)]
				case 1:
					c = "discres"
				}
			}
			s = append(s, mk(c, rc))
			if c == "discres" {
				break
			}
		}
		if l := s[len(s)-1]; l.Cause != "discres" && !terminalRecon(l.Reconnect) {
			s = append(s, epochScript{Healthy: 1, WithholdK: 1, Cause: "close"})
		}
		out = append(out, s)
	}
	return out
}

func run(rr *mon.Run) {
	r = rr
	r.Rule("scripts over 1..5 connection epochs: every ending cause {silence, status (all 255 non-zero codes over the run), foreign-channel answers only, disconnect request, disconnect response} x every reconnect outcome {accepted, busy twice then accepted, two requests lost then accepted, refused (rotating status), unanswered, busy forever}, enumerated to depth 2 and sampled to depth 5, with foreign-channel noise frames, healthy heartbeats withheld until the 3rd copy, a background sender and inbound traffic; three timing regimes (H<T, H=T, H>T) plus one with the resend interval above the response timeout (depth-1 scripts). Distinct = distinct (timing, script) signatures that ran to their end (each contains at least one fault, disconnect or reconnect)")
	rng := rand.New(rand.NewSource(r.Seed()*7717 + 1))
	scripts := genScripts(rng, r.Thorough())
	timings := []timing{{10 * time.Millisecond, 2 * time.Millisecond, 60 * time.Millisecond}, {60 * time.Millisecond, 3 * time.Millisecond, 60 * time.Millisecond}, {100 * time.Millisecond, 2 * time.Millisecond, 50 * time.Millisecond}}
	// a thread-safe logger so that the logging branches execute
	lg := &safeLogger{}
	util.Logger = lg
	can := mon.StartCanary()
	type job struct {
		id int
		s  []epochScript
		tm timing
	}
	jobs := make(chan job, len(scripts))
	for i, s := range scripts {
		jobs <- job{i, s, timings[i%3]}
	}
	close(jobs)
	// fourth regime: resend interval longer than the response timeout (legal, unusual):
	// nothing is repeated inside one exchange, the timeout alone decides
	slow := timing{40 * time.Millisecond, 400 * time.Millisecond, 30 * time.Millisecond}
	var slowJobs []job
	for ci, c := range causes {
		for ri, rc := range []string{"ok", "refused", "unanswered"} {
			e := epochScript{Healthy: 1 + (ci+ri)%2, WithholdK: 1, Cause: c, Reconnect: rc, Noise: (ci+ri)%2 == 0}
			if c == "status" {
				e.Status = uint8(0x21 + ri)
			}
			if rc == "refused" {
				e.ReStatus = uint8(0x22 + ci)
			}
			sc := []epochScript{e}
			if rc == "ok" {
				sc = append(sc, epochScript{Healthy: 1, WithholdK: 1, Cause: "close"})
			}
			slowJobs = append(slowJobs, job{len(scripts) + len(slowJobs), sc, slow})
		}
	}
	jobs2 := make(chan job, len(slowJobs))
	for _, j := range slowJobs {
		jobs2 <- j
	}
	close(jobs2)
	var wg sync.WaitGroup
	for w := 0; w < 4; w++ {
		wg.Add(1)
		go func() {
			defer wg.Done()
			for j := range jobs {
				if r.Enough() {
					continue
				}
				runScript(j.id, j.s, j.tm, can)
			}
			for j := range jobs2 {
				if r.Enough() {
					continue
				}
				runScript(j.id, j.s, j.tm, can)
			}
		}()
	}
	wg.Wait()
	stall := can.Stop()
	util.Logger = nil
	r.Observe("scripts_total", len(scripts))
	r.Observe("scripts_completed", nScripts)
	r.Observe("epochs", nEpochs)
	r.Observe("heartbeat_requests_in_healthy_windows", nHeartbeats)
	r.Observe("reconnects", nReconnects)
	r.Observe("terminations_checked", nTerminal)
	r.Observe("ending_causes", causeCount)
	r.Observe("worst_reconnect_delay_ms_by_cause", promptness)
	r.Observe("stale_old_channel_heartbeats_seen", nStaleKnown)
	r.Observe("channels_with_send_numbering_checked", nNumberedChannels)
	r.Observe("background_sends_ok", nSendsOK)
	r.Observe("background_sends_failed", nSendsErr)
	r.Observe("logger_bytes", lg.n)
	r.Observe("worst_scheduler_stall_ms", float64(stall)/1e6)
	r.Observe("scripts_not_judged_because_timers_were_starved", nStarved)
	if nStarved*5 > int64(len(scripts)) {
		r.Violate("retransmission.cadence", map[string]string{"class": "other"}, map[string]interface{}{"starved_scripts": nStarved, "of": len(scripts)},
			"in %d of %d scripts pending connect / connection-state requests were retransmitted more than 4 resend intervals + 10 ms apart: requests are not repeated every resend interval", nStarved, len(scripts))
	}
	r.Assume("upper time bounds carry 3 x worst canary stall + 20 ms; the hang bound is 20 x (T+H) + 5 s")
	r.Assume("built without -race because util.Log updates a package-level variable unsynchronised once a Logger is installed (outside the properties)")
	if nScripts == 0 || nReconnects == 0 {
		r.Broken("no script completed")
	}
	_ = strings.Join
}
