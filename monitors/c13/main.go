// C13 — the router client paces its transmissions and backs off when told
// the router is busy. The real Router runs on an in-memory socket (built with
// -race); senders saturate it; the wire log's timestamps are taken inside
// sock.Send. Oracle: exact lower bounds (gap >= pause, silence >= min(wait,
// 50 ms) after at most G stragglers), canary-guarded upper bound for
// resumption, hang bound for every Send.
package main

import (
	"fmt"
	"math/rand"
	"runtime"
	"sync"
	"sync/atomic"
	"time"

	"github.com/vapourismo/knx-go/knx"
	"github.com/vapourismo/knx-go/knx/knxnet"

	"verif/internal/gateway"
	"verif/internal/mcast"
	"verif/internal/memsock"
	"verif/internal/mon"
	"verif/internal/spec"
)

func main() {
	mon.Main("C13", "exploration", mon.Options{Race: true, QuickTimeout: 25 * time.Minute, ThoroughTimeout: 150 * time.Minute,
		RaceFilter: func(rep mon.RaceReport) string {
			if rep.IsCloseVsSend() {
				return "benign:close-vs-send"
			}
			if !rep.InvolvesLibrary() {
				return "race.harness"
			}
			return "race.library"
		}}, run)
}

var r *mon.Run

type scenario struct {
	G       int
	Burst   int // messages per sender
	Pause   time.Duration
	Wait    time.Duration
	Control uint16
	When    string // idle | mid | storm
	Storm   int
	// Decreasing: in a storm the later indications announce 0 ms
	Decreasing bool
	Seed       int64
}

func (s scenario) String() string {
	return fmt.Sprintf("G=%d burst=%d pause=%v wait=%v control=%d when=%s storm=%d decreasing=%v", s.G, s.Burst, s.Pause, s.Wait, s.Control, s.When, s.Storm, s.Decreasing)
}

var (
	nScen, nTx, nBusy, nGapChecked, nEmptyLost int64
	stragglerHist                = map[int]int64{}
	silenceMinMs                 = map[string]float64{}
)

type outcome struct {
	exceeded  bool // straggler bound exceeded, silence found later
	ignored   bool // no silence at all
	other     bool
	stragglers int
}

func runScenario(sc scenario, judge bool) outcome {
	var out outcome
	sig := sc.String()
	r.Crumb("C13 %s seed=%d", sig, sc.Seed)
	attrs := map[string]string{"pause": sc.Pause.String()}
	s := memsock.New("udp")
	rt, err := knx.NewRouterOnSocket(s, knx.RouterConfig{PostSendPauseDuration: sc.Pause, RetainCount: 8})
	if err != nil {
		r.Violate("router.start", nil, nil, "cannot start router: %v", err)
		out.other = true
		return out
	}
	defer rt.Close()
	can := mon.StartCanary()
	defer can.Stop()
	if sc.Seed%2 == 0 {
		// a lost indication that finds nothing to retransmit (fresh client; count 0, 2):
		// it must leave the client able to send
		if _, expired := s.DeliverTimeout(&knxnet.RoutingLost{Count: uint16(sc.Seed % 4)}, 10*time.Second); expired && judge {
			r.Violate("receive-loop.stuck", attrs, map[string]interface{}{"scenario": sig}, "[%s] the receive loop did not take a lost indication on a fresh client within 10 s", sig)
		}
		// barrier: the receive loop takes the next frame only after it has dealt with the
		// lost indication (otherwise the first Sends could still be picked up by it)
		s.DeliverTimeout(&knxnet.RoutingInd{Payload: gateway.Ind(0xfffffff0)}, 10*time.Second)
		atomic.AddInt64(&nEmptyLost, 1)
	}
	var wg sync.WaitGroup
	startSenders := func() {
		for g := 0; g < sc.G; g++ {
			wg.Add(1)
			go func(g int) {
				defer wg.Done()
				for i := 0; i < sc.Burst; i++ {
					rt.Send(gateway.Ind(uint32(g*100000 + i + 1)))
				}
			}(g)
		}
	}
	var tOffer time.Duration
	busy := func(w time.Duration, ctl uint16) time.Duration {
		if tOffer == 0 {
			tOffer = s.Now() // the indication is taken in somewhere between this instant and the return of the delivery
		}
		if _, expired := s.DeliverTimeout(&knxnet.RoutingBusy{WaitTime: w, Control: ctl}, 10*time.Second); expired && judge {
			r.Violate("receive-loop.stuck", attrs, map[string]interface{}{"scenario": sig}, "[%s] the receive loop did not take a busy indication within 10 s", sig)
		}
		atomic.AddInt64(&nBusy, 1)
		return s.Now()
	}
	var tIn time.Duration
	var tIns []time.Duration
	switch sc.When {
	case "lost":
		// retransmissions triggered by a routing-lost indication are transmissions
		// too: the pause applies around and inside the resend batch
		startSenders()
		s.WaitTx(spec.SvcRoutingInd, 0, 2, 5*time.Second)
		if _, expired := s.DeliverTimeout(&knxnet.RoutingLost{Count: uint16(1 + sc.G%3)}, 10*time.Second); expired && judge {
			r.Violate("receive-loop.stuck", attrs, map[string]interface{}{"scenario": sig}, "[%s] the receive loop did not take a lost indication within 10 s", sig)
		}
		if sc.Seed%3 == 0 {
			// ... followed by one that announces nothing lost
			s.DeliverTimeout(&knxnet.RoutingLost{Count: 0}, 10*time.Second)
			atomic.AddInt64(&nEmptyLost, 1)
		}
		tIn = s.Now()
	case "idle":
		tIn = busy(sc.Wait, sc.Control)
		tIns = append(tIns, tIn)
		startSenders()
	default:
		startSenders()
		// let a few transmissions pass so that every sender is inside Send
		s.WaitTx(spec.SvcRoutingInd, 0, sc.G+2, 5*time.Second)
		if sc.Pause > 0 {
			time.Sleep(sc.Pause / 2) // mid-pause
		}
		tIn = busy(sc.Wait, sc.Control)
		tIns = append(tIns, tIn)
		if sc.When == "storm" {
			for i := 1; i < sc.Storm; i++ {
				// the receive loop is blocked in its Lock while the previous busy holds; deliveries queue up behind it
				w2, c2 := sc.Wait, sc.Control
				if sc.Decreasing {
					w2, c2 = 0, 1 // a shorter announcement must not cut the first one short
				}
				go func() { s.Deliver(&knxnet.RoutingBusy{WaitTime: w2, Control: c2}) }()
			}
		}
	}
	done := make(chan struct{})
	go func() { wg.Wait(); close(done) }()
	total := sc.G * sc.Burst
	hang := time.Duration(total)*(sc.Pause+time.Millisecond) + time.Duration(sc.Storm+1)*120*time.Millisecond + 10*time.Second
	select {
	case <-done:
	case <-time.After(hang):
		if judge {
			r.Violate("send.hang", attrs, map[string]interface{}{"scenario": sig, "goroutines": clip(mon.LibGoroutines("knx-go/knx."))}, "[%s] Sends did not all return within %v: transmission did not resume", sig, hang)
		}
		out.other = true
		return out
	}
	can.Settle()
	stall := can.Max()
	log := s.Log()
	var tx []time.Duration
	for _, e := range log {
		if e.Kind == memsock.Tx && !e.Err && e.P.Service == spec.SvcRoutingInd {
			tx = append(tx, e.T)
		}
	}
	atomic.AddInt64(&nTx, int64(len(tx)))
	if sc.When == "lost" {
		if len(tx) < total {
			if judge {
				r.Violate("send.count", attrs, map[string]interface{}{"scenario": sig}, "[%s] %d routing indications on the wire for %d Sends", sig, len(tx), total)
			}
			out.other = true
			return out
		}
	} else if len(tx) != total {
		if judge {
			r.Violate("send.count", attrs, map[string]interface{}{"scenario": sig}, "[%s] %d routing indications on the wire for %d Sends", sig, len(tx), total)
		}
		out.other = true
		return out
	}
	// (1) pacing: exact lower bound
	for i := 1; i < len(tx); i++ {
		atomic.AddInt64(&nGapChecked, 1)
		if tx[i]-tx[i-1]+20*time.Microsecond < sc.Pause {
			if judge {
				r.Violate("pacing.gap", attrs, map[string]interface{}{"scenario": sig, "gap_us": float64(tx[i]-tx[i-1]) / 1e3, "index": i},
					"[%s] transmissions #%d and #%d are %v apart, closer than the post-send pause %v", sig, i-1, i, tx[i]-tx[i-1], sc.Pause)
			}
			out.other = true
			return out
		}
	}
	if sc.When == "lost" {
		// wait for the resend batch to finish, then re-check the pacing over everything
		time.Sleep(time.Duration(4)*sc.Pause + 2*time.Millisecond)
		var all []time.Duration
		for _, e := range s.Log() {
			if e.Kind == memsock.Tx && !e.Err && e.P.Service == spec.SvcRoutingInd {
				all = append(all, e.T)
			}
		}
		for i := 1; i < len(all); i++ {
			if all[i]-all[i-1]+20*time.Microsecond < sc.Pause {
				if judge {
					r.Violate("pacing.gap", attrs, map[string]interface{}{"scenario": sig, "gap_us": float64(all[i]-all[i-1]) / 1e3, "index": i},
						"[%s] transmissions #%d and #%d (around a retransmission batch) are %v apart, closer than the post-send pause %v", sig, i-1, i, all[i]-all[i-1], sc.Pause)
				}
				out.other = true
				return out
			}
		}
		if judge {
			atomic.AddInt64(&nScen, 1)
			r.Eval(1)
			r.DistinctStr(sig)
		}
		return out
	}
	// (2) busy back-off
	w := sc.Wait
	if w > 50*time.Millisecond {
		w = 50 * time.Millisecond
	}
	if w > 0 {
		// the silence is searched from the moment the indication was offered (the
		// harness may read its clock late after the hand-over); stragglers are
		// counted from the moment the hand-over is known to have happened
		var after []time.Duration
		for _, t := range tx {
			if t > tOffer {
				after = append(after, t)
			}
		}
		prev := tOffer
		m := -1
		for i, t := range after {
			if t-prev+50*time.Microsecond >= w {
				m = 0
				for _, u := range after[:i] {
					if u > tIn {
						m++
					}
				}
				after = after[i-m:] // so that after[m] is the transmission that ends the silence
				break
			}
			prev = t
		}
		key := fmt.Sprintf("wait=%v", sc.Wait)
		if m < 0 {
			// the senders may have run dry before the silence could show
			// at pause 0 the receive loop gets the send lock only once the mutex's starvation
			// mode (1 ms of waiting) hands it over - the recorded finding; transmissions inside
			// that latency do not yet contradict the silence
			lockLatency := time.Duration(0)
			if sc.Pause == 0 {
				lockLatency = 2*time.Millisecond + 3*stall
			}
			if len(after) > sc.G && after[len(after)-1]-tOffer+50*time.Microsecond < w+lockLatency {
				// everything that was still sent went out within less than the announced wait and
				// then the senders had nothing left: nothing contradicts the silence, the further
				// transmissions count as stragglers (judged by the straggler bound below)
				k := 0
				for _, u := range after {
					if u > tIn {
						k++
					}
				}
				out.stragglers = k
				stragglerHist[k]++
				if k > sc.G {
					out.exceeded = true
				}
			} else if len(after) > sc.G {
				out.ignored = true
				if judge {
					r.Violate("busy.ignored", attrs, map[string]interface{}{"scenario": sig, "transmissions_after_busy": len(after), "first_gaps_ms": gaps(tIn, after, 12)},
						"[%s] after the busy indication was taken in, %d further transmissions went out with no silence of %v anywhere (announced wait %v)", sig, len(after), w, sc.Wait)
				}
				return out
			}
		} else {
			out.stragglers = m
			stragglerHist[m]++
			sil := after[m] - prev
			if ms := float64(sil) / 1e6; silenceMinMs[key] == 0 || ms < silenceMinMs[key] {
				silenceMinMs[key] = ms
			}
			if m > sc.G {
				out.exceeded = true
			}
			// (3) resumption: the silence ends no later than the 50 ms cap (+ pause + slack)
			capd := 50*time.Millisecond*time.Duration(sc.Storm+1) + sc.Pause
			if sc.Decreasing {
				capd = 50*time.Millisecond + sc.Pause*time.Duration(sc.Storm+1)
			}
			if sil > capd+3*stall+20*time.Millisecond && stall < 250*time.Millisecond {
				if judge {
					r.Violate("busy.resume-late", attrs, map[string]interface{}{"scenario": sig, "silence_ms": float64(sil) / 1e6}, "[%s] transmission resumed only %v after the last straggler (cap 50 ms per busy indication, %d indications)", sig, sil, sc.Storm+1)
				}
				out.other = true
			}
		}
	}
	if judge {
		atomic.AddInt64(&nScen, 1)
		r.Eval(1)
		r.DistinctStr(sig)
		if r.WantSample() && w > 0 {
			r.Sample(map[string]interface{}{"scenario": sig, "transmissions": len(tx), "stragglers": out.stragglers, "first_gaps_after_busy_ms": gapsAfter(tIn, tx, 6)})
		}
	}
	return out
}

// realRouter is the loopback slice: the real knx.NewRouter on a per-process
// multicast group; its transmissions are observed by an AF_PACKET capture
// (timestamps carry capture jitter, so the bounds get a tolerance), busy
// indications are injected as datagrams to the group.
func realRouter(id int, G, burst int, pause, wait time.Duration) {
	sig := fmt.Sprintf("real-router G=%d burst=%d pause=%v wait=%v", G, burst, pause, wait)
	r.Crumb("C13 %s", sig)
	attrs := map[string]string{"pause": pause.String(), "slice": "real-router"}
	l, err := mcast.Open(id)
	if err != nil {
		r.Inconclusive("real-router slice: " + err.Error())
		return
	}
	defer l.Close()
	rt, err := knx.NewRouter(l.Group, knx.RouterConfig{PostSendPauseDuration: pause})
	if err != nil {
		r.Inconclusive("real-router slice: NewRouter: " + err.Error())
		return
	}
	defer rt.Close()
	can := mon.StartCanary()
	defer can.Stop()
	t0 := time.Now()
	var wg sync.WaitGroup
	for g := 0; g < G; g++ {
		wg.Add(1)
		go func(g int) {
			defer wg.Done()
			for i := 0; i < burst; i++ {
				rt.Send(gateway.Ind(uint32(g*100000 + i + 1)))
			}
		}(g)
	}
	if !l.WaitCount(G+1, 5*time.Second) {
		r.Inconclusive(sig + ": the capture saw no transmissions (no multicast path / capture not working)")
		wg.Wait()
		return
	}
	tOffer := l.Now()
	l.Inject((&spec.Frame{Service: spec.SvcRoutingBusy, WaitMs: uint16(wait / time.Millisecond), BusyCtl: 1}).Encode())
	done := make(chan struct{})
	go func() { wg.Wait(); close(done) }()
	select {
	case <-done:
	case <-time.After(time.Duration(G*burst)*(pause+time.Millisecond) + 10*time.Second):
		r.Violate("send.hang", attrs, map[string]interface{}{"scenario": sig}, "[%s] Sends did not all return", sig)
		return
	}
	time.Sleep(5 * time.Millisecond)
	can.Settle()
	tol := 1500*time.Microsecond + can.StallSince(t0)
	fr := l.Frames(0)
	var tx []time.Duration
	stamped := true
	for _, f := range fr {
		if p := spec.Parse(f.Bytes); p.OK && p.Service == spec.SvcRoutingInd {
			tx = append(tx, f.T)
			stamped = stamped && f.Kernel
		}
	}
	atomic.AddInt64(&nTx, int64(len(tx)))
	r.Eval(1)
	if !stamped {
		// without kernel transmit timestamps the times are those at which the capture
		// goroutine got to read the packets, which bunch up whenever it is scheduled late
		r.Inconclusive(sig + ": the capture has no kernel transmit timestamps; not judged")
		return
	}
	if len(tx) != G*burst {
		r.Inconclusive(fmt.Sprintf("%s: captured %d of %d transmissions (capture loss); not judged", sig, len(tx), G*burst))
		return
	}
	for i := 1; i < len(tx); i++ {
		if tx[i]-tx[i-1]+tol < pause {
			r.Violate("pacing.gap", attrs, map[string]interface{}{"scenario": sig, "gap_us": float64(tx[i]-tx[i-1]) / 1e3, "tolerance_us": float64(tol) / 1e3},
				"[%s] transmissions #%d and #%d left the host %v apart, closer than the post-send pause %v (tolerance %v)", sig, i-1, i, tx[i]-tx[i-1], pause, tol)
			return
		}
	}
	w := wait
	if w > 50*time.Millisecond {
		w = 50 * time.Millisecond
	}
	prev := tOffer
	found := false
	nAfter := 0
	for _, t := range tx {
		if t <= tOffer {
			continue
		}
		nAfter++
		if t-prev+tol >= w {
			found = true
			break
		}
		prev = t
	}
	if !found && nAfter > G+2 {
		r.Violate("busy.ignored", attrs, map[string]interface{}{"scenario": sig, "transmissions_after_busy": nAfter},
			"[%s] after a busy indication was sent to the group, %d further transmissions left the host with no silence of %v anywhere", sig, nAfter, w)
		return
	}
	atomic.AddInt64(&nScen, 1)
	atomic.AddInt64(&nBusy, 1)
	r.DistinctStr(sig)
}

func gaps(t0 time.Duration, ts []time.Duration, n int) []float64 {
	var out []float64
	prev := t0
	for i, t := range ts {
		if i >= n {
			break
		}
		out = append(out, float64(t-prev)/1e6)
		prev = t
	}
	return out
}

func gapsAfter(t0 time.Duration, tx []time.Duration, n int) []float64 {
	var after []time.Duration
	for _, t := range tx {
		if t > t0 {
			after = append(after, t)
		}
	}
	return gaps(t0, after, n)
}

func clip(ss []string) []string {
	if len(ss) > 5 {
		ss = ss[:5]
	}
	for i := range ss {
		if len(ss[i]) > 1200 {
			ss[i] = ss[i][:1200]
		}
	}
	return ss
}

func run(rr *mon.Run) {
	r = rr
	r.Rule("scenarios = senders 1..8 x burst x post-send pause {0, 0.4, 1.25, 2, 2.4, 5, 5.3, 20 ms} x busy wait {0, 1, 10, 30, 50, 100, 500 ms} x control {0, 1} x arrival {idle, mid-pause, storm of 2..5}; senders saturate the client; Distinct = distinct scenario signatures that ran to completion (each contains a busy indication)")
	rng := rand.New(rand.NewSource(r.Seed()*4447 + 7))
	pauses := []time.Duration{0, 2 * time.Millisecond, 5 * time.Millisecond, 20 * time.Millisecond}
	// every third round uses pauses that are not whole milliseconds
	fractional := []time.Duration{400 * time.Microsecond, 2400 * time.Microsecond, 1250 * time.Microsecond, 5300 * time.Microsecond}
	waits := []time.Duration{0, time.Millisecond, 10 * time.Millisecond, 30 * time.Millisecond, 50 * time.Millisecond, 100 * time.Millisecond, 500 * time.Millisecond}
	whens := []string{"idle", "mid", "storm", "mid", "lost", "storm"}
	n := r.Pick(72, 2400)
	for i := 0; i < n && !r.Enough(); i++ {
		pz := pauses[i%4]
		if (i/4)%3 == 2 {
			pz = fractional[i%4]
		}
		sc := scenario{G: 1 + rng.Intn(8), Pause: pz, Wait: waits[(i/4)%7], Control: uint16(i % 2), When: whens[(i/3)%6], Seed: r.Seed()*100000 + int64(i)}
		if i%9 == 0 {
			sc.G = 8
		}
		if sc.When == "storm" {
			sc.Storm = 2 + rng.Intn(4)
			sc.Decreasing = (i/3)%6 == 5
			if sc.Decreasing {
				sc.Control = 1 // no random extra: the first announcement alone gives the bound
			}
		}
		if sc.When == "lost" && sc.Pause == 0 {
			sc.Pause = 5 * time.Millisecond
		}
		// enough messages to stay saturated through the silence, few enough to finish soon
		switch {
		case sc.Pause >= 20*time.Millisecond:
			sc.Burst = 3 + 12/sc.G
		case sc.Pause >= 2*time.Millisecond:
			sc.Burst = 6 + 60/sc.G
		default:
			// at pause 0 a transmission takes microseconds: enough of them that the senders are
			// still busy well after the receive loop has got hold of the send lock
			sc.Burst = 200
			if sc.Wait <= 10*time.Millisecond {
				sc.Burst += 2400 / sc.G // decidable only when the work outlasts wait + lock latency
			}
		}
		runtime.GOMAXPROCS([]int{2, 4, 16}[i%3])
		out := runScenario(sc, true)
		if out.exceeded {
			// the straggler bound is sound where the mutex hand-off is FIFO (pause >= 2 ms);
			// a single exceedance must reproduce, else it is an inconclusive single
			attrs := map[string]string{"pause": sc.Pause.String(), "class": "straggler-count-only"}
			if sc.Pause == 0 {
				r.Violate("busy.stragglers", attrs, map[string]interface{}{"scenario": sc.String(), "stragglers": out.stragglers, "senders": sc.G},
					"[%s] %d transmissions went out after the busy indication was taken in (at most one per sender = %d), then silence and resumption held", sc.String(), out.stragglers, sc.G)
				continue
			}
			rep := 0
			worst, ignoredSeen := out.stragglers, false
			for k := 0; k < 5; k++ {
				if o := runScenario(sc, false); o.exceeded || o.ignored {
					rep++
					if o.stragglers > worst {
						worst = o.stragglers
					}
					ignoredSeen = ignoredSeen || o.ignored
				}
			}
			if rep >= 2 {
				attrs["class"] = "reproduced"
				if worst <= 2*sc.G && !ignoredSeen {
					// one transmission in flight plus one re-acquisition of the send lock ahead of
					// the woken receive loop, per sender: the recorded finding
					attrs["class"] = "one-extra-per-sender"
				}
				r.Violate("busy.stragglers", attrs, map[string]interface{}{"scenario": sc.String(), "stragglers": out.stragglers, "senders": sc.G, "reproduced": rep},
					"[%s] %d transmissions went out after the busy indication (at most %d allowed); reproduced in %d of 5 repeats", sc.String(), out.stragglers, sc.G, rep)
			} else {
				r.Inconclusive(fmt.Sprintf("%s: %d stragglers once (bound %d), not reproduced in 5 repeats", sc.String(), out.stragglers, sc.G))
			}
		}
	}
	runtime.GOMAXPROCS(runtime.NumCPU())
	for i := 0; i < r.Pick(4, 60) && !r.Enough(); i++ {
		realRouter(i, 1+i%4, 12, []time.Duration{5 * time.Millisecond, 20 * time.Millisecond, 2 * time.Millisecond}[i%3], []time.Duration{30 * time.Millisecond, 10 * time.Millisecond}[i%2])
	}
	r.Observe("scenarios", nScen)
	r.Observe("routing_indications_on_the_wire", nTx)
	r.Observe("lost_indications_with_nothing_to_retransmit", nEmptyLost)
	r.Observe("busy_indications", nBusy)
	r.Observe("consecutive_gaps_checked", nGapChecked)
	hist := map[string]int64{}
	for k, v := range stragglerHist {
		hist[fmt.Sprint(k)] = v
	}
	r.Observe("straggler_count_histogram", hist)
	r.Observe("shortest_silence_ms_by_wait", silenceMinMs)
	r.Assume("timestamps are taken inside sock.Send; time.Sleep and time.AfterFunc never fire early, so the lower bounds are exact")
	r.Assume("the straggler bound is demanded where the mutex hand-off is FIFO (pause >= 2 ms) and must reproduce in 2 of 5 repeats")
	if nBusy == 0 || nTx == 0 {
		r.Broken("nothing observed")
	}
}
