// C14 — the router client resends exactly what was lost, bounds its history
// and shuts down. The real Router runs on an in-memory socket (built with
// -race). Oracle: a sequential model of the retained list replayed along the
// wire order (every successful transmission, original or resent, is pushed
// and the list trimmed); exact comparison of the resent sequence and of the
// retained-list snapshots (hook VerifRetained) in sequential histories; a
// search over the pop position in concurrent histories; Inbound exactly-once.
package main

import (
	"errors"
	"fmt"
	"math/rand"
	"runtime"
	"sort"
	"sync"
	"sync/atomic"
	"time"

	"github.com/vapourismo/knx-go/knx"
	"github.com/vapourismo/knx-go/knx/cemi"
	"github.com/vapourismo/knx-go/knx/knxnet"

	"verif/internal/gateway"
	"verif/internal/mcast"
	"verif/internal/memsock"
	"verif/internal/mon"
	"verif/internal/spec"
)

func main() {
	mon.Main("C14", "exploration", mon.Options{Race: true, QuickTimeout: 25 * time.Minute, ThoroughTimeout: 150 * time.Minute,
		RaceFilter: func(rep mon.RaceReport) string {
			if rep.IsCloseVsSend() {
				return "benign:close-vs-send"
			}
			if !rep.InvolvesLibrary() {
				return "race.harness"
			}
			return "race.library"
		}}, run)
}

var r *mon.Run

var nClosedMid int64

var (
	nHist, nSends, nFailed, nLost, nResent, nSnapshots, nInbound int64
	lostCounts                                                  = map[string]int64{}
)

var errInjected = errors.New("injected transmission failure")

func idsOf(ms []cemi.Message) []uint32 {
	var out []uint32
	for _, m := range ms {
		id, _ := gateway.IDOfMessage(m)
		out = append(out, id)
	}
	return out
}

func wireIDs(s *memsock.Sock, from int) []uint32 {
	var out []uint32
	for _, e := range s.LogFrom(from) {
		if e.Kind == memsock.Tx && !e.Err && e.P.Service == spec.SvcRoutingInd {
			id, _ := gateway.IDOfBytes(e.P.Cemi)
			out = append(out, id)
		}
	}
	return out
}

// wireAll returns every transmission attempt in order: id and whether it failed.
func wireAll(s *memsock.Sock) (ids []uint32, failed []bool) {
	for _, e := range s.LogFrom(0) {
		if e.Kind == memsock.Tx && e.P.Service == spec.SvcRoutingInd {
			id, _ := gateway.IDOfBytes(e.P.Cemi)
			ids = append(ids, id)
			failed = append(failed, e.Err)
		}
	}
	return
}

// retainedIDs reads the retained list through the hook; the hook takes the
// send lock, so a bound is needed when the client has deadlocked.
func retainedIDs(rt *knx.Router, sig string) ([]uint32, bool) {
	ch := make(chan []uint32, 1)
	go func() { ch <- idsOf(rt.VerifRetained()) }()
	select {
	case got := <-ch:
		return got, true
	case <-time.After(10 * time.Second):
		r.Violate("retained.deadlock", map[string]string{"workload": "any"}, map[string]interface{}{"history": sig, "goroutines": clip(mon.LibGoroutines("knx-go/knx."))},
			"[%s] the retained list cannot be read within 10 s: the send lock is never released (the client can no longer send)", sig)
		return nil, false
	}
}

// deliver hands an indication to the client; a receive loop that does not
// take it within 10 s is stuck (it holds or waits for the send lock forever).
func deliver(s *memsock.Sock, svc knxnet.Service, sig string) bool {
	taken, expired := s.DeliverTimeout(svc, 10*time.Second)
	if expired {
		r.Violate("receive-loop.stuck", map[string]string{"workload": "any"}, map[string]interface{}{"history": sig, "goroutines": clip(mon.LibGoroutines("knx-go/knx."))},
			"[%s] the client's receive loop stopped taking indications (blocked on the send lock): the client deadlocked", sig)
		return false
	}
	return taken
}

func eq(a, b []uint32) bool {
	if len(a) != len(b) {
		return false
	}
	for i := range a {
		if a[i] != b[i] {
			return false
		}
	}
	return true
}

func effRetain(rc uint) int {
	if rc == 0 {
		return 32
	}
	return int(rc)
}

// model of the retained list
type model struct {
	cap  int
	list []uint32
}

func (m *model) push(id uint32) {
	m.list = append(m.list, id)
	for len(m.list) > m.cap {
		m.list = m.list[1:]
	}
}

func (m *model) pop(k int) []uint32 {
	if k > len(m.list) {
		k = len(m.list)
	}
	out := append([]uint32(nil), m.list[len(m.list)-k:]...)
	m.list = m.list[:len(m.list)-k]
	return out
}

// sequential history: one thread of sends (some failing), lost and busy
// indications; after every lost indication the resends are awaited and
// compared exactly.
func sequential(seed int64, retain uint, nOps int) {
	rng := rand.New(rand.NewSource(seed))
	sig := fmt.Sprintf("sequential retain=%d ops=%d seed=%d", retain, nOps, seed)
	r.Crumb("C14 %s", sig)
	attrs := map[string]string{"workload": "sequential"}
	s := memsock.New("udp")
	var failNext atomic.Bool
	s.SendFault = func(p spec.Parsed, raw []byte) memsock.Fault {
		if p.Service == spec.SvcRoutingInd && failNext.CompareAndSwap(true, false) {
			return memsock.Fault{Fail: errInjected}
		}
		return memsock.Fault{}
	}
	rt, err := knx.NewRouterOnSocket(s, knx.RouterConfig{RetainCount: retain, PostSendPauseDuration: 0})
	if err != nil {
		r.Violate("router.start", nil, nil, "cannot start router: %v", err)
		return
	}
	defer rt.Close()
	m := &model{cap: effRetain(retain)}
	var hist []string
	id := uint32(0)
	bad := func(tag string, extra map[string]interface{}, format string, a ...interface{}) {
		cs := map[string]interface{}{"history": sig, "operations": tailS(hist, 40)}
		for k, v := range extra {
			cs[k] = v
		}
		r.Violate(tag, attrs, cs, "[%s] %s", sig, fmt.Sprintf(format, a...))
	}
	send := func(fail bool) bool {
		id++
		if fail {
			failNext.Store(true)
		}
		resCh := make(chan error, 1)
		go func() { resCh <- rt.Send(gateway.Ind(id)) }()
		select {
		case err := <-resCh:
			atomic.AddInt64(&nSends, 1)
			if fail {
				atomic.AddInt64(&nFailed, 1)
				hist = append(hist, fmt.Sprintf("send %d (fails)", id))
				if err == nil {
					bad("send.error-swallowed", nil, "a failing transmission was reported as success")
				}
			} else {
				hist = append(hist, fmt.Sprintf("send %d", id))
				if err != nil {
					bad("send.failed", nil, "Send failed: %v", err)
				}
				m.push(id)
			}
			return true
		case <-time.After(10 * time.Second):
			hist = append(hist, fmt.Sprintf("send %d (never returned)", id))
			bad("send.deadlock", map[string]interface{}{"goroutines": clip(mon.LibGoroutines("knx-go/knx."))}, "Send did not return within 10 s: the client can no longer send")
			return false
		}
	}
	snapshot := func() bool {
		atomic.AddInt64(&nSnapshots, 1)
		var got []uint32
		ch := make(chan []uint32, 1)
		go func() { ch <- idsOf(rt.VerifRetained()) }()
		select {
		case got = <-ch:
		case <-time.After(10 * time.Second):
			bad("retained.deadlock", nil, "the retained list cannot be read: the send lock is never released")
			return false
		}
		if len(got) > m.cap {
			bad("retained.bound", map[string]interface{}{"retained": got}, "%d messages are retained, the configured bound is %d", len(got), m.cap)
			return false
		}
		if !eq(got, m.list) {
			bad("retained.content", map[string]interface{}{"retained": got, "model": m.list}, "the retained list is %v, the last successfully sent messages (bounded by %d) are %v", got, m.cap, m.list)
			return false
		}
		return true
	}
	lostVals := []int{0, 1, 2, m.cap - 1, m.cap, m.cap + 1, 65535}
	for op := 0; op < nOps; op++ {
		x := rng.Intn(100)
		switch {
		case x < 70:
			if !send(false) {
				return
			}
		case x < 78:
			if !send(true) {
				return
			}
		case x < 84:
			hist = append(hist, "busy 1ms")
			if !deliver(s, &knxnet.RoutingBusy{WaitTime: time.Millisecond, Control: 1}, sig) {
				return
			}
		default:
			k := lostVals[rng.Intn(len(lostVals))]
			if k < 0 {
				k = 0
			}
			if rng.Intn(4) == 0 {
				k = rng.Intn(m.cap + 3)
			}
			atomic.AddInt64(&nLost, 1)
			lostCounts[fmt.Sprint(k)]++
			hist = append(hist, fmt.Sprintf("lost %d", k))
			from := s.Len()
			want := m.pop(k)
			failFirst := len(want) > 0 && rng.Intn(5) == 0
			if failFirst {
				// a transient transmission failure inside the resend batch: that message is
				// dropped (not retained again), the rest of the batch still goes out
				failNext.Store(true)
				hist[len(hist)-1] += " (first retransmission fails)"
				want = want[1:]
				atomic.AddInt64(&nFailed, 1)
			}
			if !deliver(s, &knxnet.RoutingLost{Count: uint16(k)}, sig) {
				return
			}
			// a no-op indication behind it: once taken, the pop has happened
			if !deliver(s, &knxnet.RoutingLost{Count: 0}, sig) {
				return
			}
			// resends appear on the wire; wait for them (bounded), then a little longer for anything extra
			deadline := time.Now().Add(5 * time.Second)
			for len(wireIDs(s, from)) < len(want) && time.Now().Before(deadline) {
				time.Sleep(100 * time.Microsecond)
			}
			if failFirst {
				// the failing retransmission is attempted by the resend goroutine; wait
				// until that attempt is in the log (it consumes the injected failure)
				for failNext.Load() && time.Now().Before(deadline) {
					time.Sleep(100 * time.Microsecond)
				}
			}
			time.Sleep(300 * time.Microsecond)
			got := wireIDs(s, from)
			atomic.AddInt64(&nResent, int64(len(got)))
			if !eq(got, want) {
				bad("resend.sequence", map[string]interface{}{"resent": got, "expected": want, "lost_count": k},
					"after a lost indication with count %d the client retransmitted %v; the last min(k, retained) successfully sent messages in original order are %v", k, got, want)
				return
			}
			for _, w := range want {
				m.push(w) // resent messages are sent (and retained) again
			}
			// the resend goroutine must have finished before the snapshot compares
			time.Sleep(200 * time.Microsecond)
		}
		if op%7 == 0 || op == nOps-1 {
			if !snapshot() {
				return
			}
		}
	}
	// progress probe
	if !send(false) || !snapshot() {
		return
	}
	atomic.AddInt64(&nHist, 1)
	r.Eval(1)
	r.DistinctStr(sig)
	if r.WantSample() {
		r.Sample(map[string]interface{}{"history": sig, "operations": tailS(hist, 25), "retained_at_end": m.list})
	}
}

// concurrent history: G senders saturate while lost indications arrive.
func concurrent(seed int64, retain uint, G, per int) {
	rng := rand.New(rand.NewSource(seed))
	sig := fmt.Sprintf("concurrent retain=%d G=%d per=%d seed=%d", retain, G, per, seed)
	r.Crumb("C14 %s", sig)
	attrs := map[string]string{"workload": "concurrent"}
	s := memsock.New("udp")
	var failCtr int32
	s.SendFault = func(p spec.Parsed, raw []byte) memsock.Fault {
		if p.Service == spec.SvcRoutingInd && atomic.AddInt32(&failCtr, 1)%19 == 0 {
			return memsock.Fault{Fail: errInjected}
		}
		return memsock.Fault{}
	}
	rt, err := knx.NewRouterOnSocket(s, knx.RouterConfig{RetainCount: retain, PostSendPauseDuration: 0})
	if err != nil {
		return
	}
	cap_ := effRetain(retain)
	var wg sync.WaitGroup
	var mu sync.Mutex
	okSent := map[uint32]bool{}
	for g := 0; g < G; g++ {
		wg.Add(1)
		go func(g int) {
			defer wg.Done()
			for i := 0; i < per; i++ {
				id := uint32(g*100000 + i + 1)
				if rt.Send(gateway.Ind(id)) == nil {
					mu.Lock()
					okSent[id] = true
					mu.Unlock()
				}
				atomic.AddInt64(&nSends, 1)
			}
		}(g)
	}
	var losts []lostW
	nl := 3 + rng.Intn(4)
	for i := 0; i < nl; i++ {
		time.Sleep(time.Duration(rng.Intn(400)) * time.Microsecond)
		k := []int{1, 2, cap_, cap_ + 1, 3}[rng.Intn(5)]
		aw, _ := wireAll(s)
		a := len(aw)
		if !deliver(s, &knxnet.RoutingLost{Count: uint16(k)}, sig) || !deliver(s, &knxnet.RoutingLost{Count: 0}, sig) {
			return
		}
		bw, _ := wireAll(s)
		b := len(bw)
		losts = append(losts, lostW{k, a, b})
		atomic.AddInt64(&nLost, 1)
		// snapshot invariant while running
		got, ok := retainedIDs(rt, sig)
		if !ok {
			return
		}
		if len(got) > cap_ {
			r.Violate("retained.bound", attrs, map[string]interface{}{"history": sig}, "[%s] %d messages retained, bound %d", sig, len(got), cap_)
		}
		atomic.AddInt64(&nSnapshots, 1)
	}
	closedEarly := seed%3 == 2
	if closedEarly {
		// Close at a random point of the history: every Send must still return (with
		// an error once the socket is closed) and Inbound must close
		time.Sleep(time.Duration(rng.Intn(300)) * time.Microsecond)
		rt.Close()
		select {
		case _, ok := <-rt.Inbound():
			if ok {
				r.Violate("inbound.not-closed", attrs, map[string]interface{}{"history": sig}, "[%s] a message appeared on Inbound after Close although none was received", sig)
			}
		case <-time.After(5 * time.Second):
			r.Violate("inbound.not-closed", attrs, map[string]interface{}{"history": sig}, "[%s] Inbound was not closed within 5 s after Close in the middle of a history", sig)
			return
		}
	}
	done := make(chan struct{})
	go func() { wg.Wait(); close(done) }()
	select {
	case <-done:
	case <-time.After(30 * time.Second):
		r.Violate("send.deadlock", attrs, map[string]interface{}{"history": sig, "goroutines": clip(mon.LibGoroutines("knx-go/knx."))}, "[%s] concurrent Sends did not all return", sig)
		return
	}
	if closedEarly {
		pr := make(chan error, 1)
		go func() { pr <- rt.Send(gateway.Ind(9999998)) }()
		select {
		case err := <-pr:
			if err == nil {
				r.Violate("send.after-close", attrs, map[string]interface{}{"history": sig}, "[%s] Send after Close reported success", sig)
			}
		case <-time.After(10 * time.Second):
			r.Violate("send.deadlock", attrs, map[string]interface{}{"history": sig}, "[%s] Send after Close did not return", sig)
		}
		atomic.AddInt64(&nHist, 1)
		atomic.AddInt64(&nClosedMid, 1)
		r.Eval(1)
		r.DistinctStr(sig + " closed-mid-way")
		return
	}
	// resend goroutines: wait until the wire has been quiet for 20 ms (bounded)
	{
		last, quiet := s.Len(), time.Now()
		dl := time.Now().Add(3 * time.Second)
		for time.Since(quiet) < 20*time.Millisecond && time.Now().Before(dl) {
			time.Sleep(time.Millisecond)
			if n := s.Len(); n != last {
				last, quiet = n, time.Now()
			}
		}
	}
	// probe
	pr := make(chan error, 1)
	go func() { pr <- rt.Send(gateway.Ind(9999999)) }()
	select {
	case <-pr:
	case <-time.After(10 * time.Second):
		r.Violate("send.deadlock", attrs, map[string]interface{}{"history": sig}, "[%s] a probe Send after the history did not return", sig)
		return
	}
	wire := wireIDs(s, 0)
	// nothing else: every wire entry is a successfully sent original or a resend of one
	count := map[uint32]int{}
	for _, id := range wire {
		count[id]++
	}
	mu.Lock()
	extra := 0
	for id, c := range count {
		if id == 9999999 {
			continue
		}
		if !okSent[id] {
			r.Violate("resend.unknown", attrs, map[string]interface{}{"history": sig, "id": id}, "[%s] message %d is on the wire %d times but no Send of it succeeded (a failed transmission was retained and resent, or something else was sent)", sig, id, c)
			mu.Unlock()
			return
		}
		extra += c - 1
	}
	mu.Unlock()
	// the total number of resends cannot exceed the sum of min(k, bound)
	maxRes := 0
	for _, l := range losts {
		k := l.k
		if k > cap_ {
			k = cap_
		}
		maxRes += k
	}
	atomic.AddInt64(&nResent, int64(extra))
	if extra > maxRes {
		r.Violate("resend.too-many", attrs, map[string]interface{}{"history": sig, "resent": extra, "bound": maxRes}, "[%s] %d retransmissions for lost indications that allow at most %d", sig, extra, maxRes)
		return
	}
	// model replay with a search over the pop position of each lost indication:
	// accepted iff some choice of positions explains exactly the observed multiset of resends
	all, failed := wireAll(s)
	if !explain(all, failed, losts, cap_) {
		r.Violate("resend.unexplained", attrs, map[string]interface{}{"history": sig, "lost": fmt.Sprint(losts), "wire_len": len(wire), "wire": wire},
			"[%s] no pop position within the observed windows makes the retransmitted messages equal to the last min(k, retained) successfully sent ones in original order", sig)
		return
	}
	if got, ok := retainedIDs(rt, sig); ok && len(got) > cap_ {
		r.Violate("retained.bound", attrs, map[string]interface{}{"history": sig}, "[%s] %d messages retained at the end, bound %d", sig, len(got), cap_)
	}
	rt.Close()
	atomic.AddInt64(&nHist, 1)
	r.Eval(1)
	r.DistinctStr(sig)
}

type lostW struct{ k, lo, hi int }

// explain searches pop positions p_i in [lo_i, hi_i] (non-decreasing) such
// that replaying the wire with pops at those positions yields, for each pop,
// a popped list that subsequently appears on the wire as a subsequence in
// order, each element consumed once, and no other duplicate remains.
func explain(wire []uint32, failed []bool, losts []lostW, cap_ int) bool {
	// simple bounded search
	budget := 20000
	pos := make([]int, len(losts))
	var search func(i int) bool
	search = func(i int) bool {
		if budget <= 0 {
			return true // inconclusive search: do not accuse
		}
		if i == len(losts) {
			budget--
			return replay(wire, failed, losts, pos, cap_)
		}
		lo := losts[i].lo
		if i > 0 && pos[i-1] > lo {
			lo = pos[i-1]
		}
		for p := lo; p <= losts[i].hi && p <= len(wire); p++ {
			pos[i] = p
			if search(i + 1) {
				return true
			}
		}
		return false
	}
	return search(0)
}

// replay: walks the wire; at position pos[i] pops min(k, len) from the model
// list; the popped ids are expected to re-appear later (in order per pop).
// Every wire entry is either a first occurrence (original) or matches the
// head of some pending resend queue.
func replay(wire []uint32, failed []bool, losts []lostW, pos []int, cap_ int) bool {
	m := &model{cap: cap_}
	seen := map[uint32]bool{}
	var queues [][]uint32
	li := 0
	for i := 0; i <= len(wire); i++ {
		for li < len(losts) && pos[li] == i {
			q := m.pop(losts[li].k)
			if len(q) > 0 {
				queues = append(queues, q)
			}
			li++
		}
		if i == len(wire) {
			break
		}
		id := wire[i]
		if !seen[id] {
			seen[id] = true
			if !failed[i] {
				m.push(id) // a failed original is not retained
			}
			continue
		}
		// a repeat must be the head of a pending resend queue
		matched := false
		for qi := range queues {
			if len(queues[qi]) > 0 && queues[qi][0] == id {
				queues[qi] = queues[qi][1:]
				matched = true
				break
			}
		}
		if !matched {
			return false
		}
		if !failed[i] {
			m.push(id) // a failed retransmission is dropped, not retained again
		}
	}
	for _, q := range queues {
		if len(q) > 0 {
			return false
		}
	}
	return li == len(losts)
}

// inbound: every routing indication received is handed to Inbound exactly once.
func inbound(seed int64, n int, reader string) {
	sig := fmt.Sprintf("inbound n=%d reader=%s seed=%d", n, reader, seed)
	r.Crumb("C14 %s", sig)
	attrs := map[string]string{"workload": "inbound"}
	s := memsock.New("udp")
	rt, err := knx.NewRouterOnSocket(s, knx.RouterConfig{})
	if err != nil {
		return
	}
	var mu sync.Mutex
	var got []uint32
	start := make(chan struct{})
	readDone := make(chan struct{})
	rng := rand.New(rand.NewSource(seed))
	go func() {
		defer close(readDone)
		if reader == "absent-then-drain" {
			<-start
		}
		for m := range rt.Inbound() {
			id, _ := gateway.IDOfMessage(m)
			mu.Lock()
			got = append(got, id)
			mu.Unlock()
			if reader == "slow" && rng.Intn(3) == 0 {
				time.Sleep(time.Duration(rng.Intn(200)) * time.Microsecond)
			}
		}
	}()
	for i := 0; i < n; i++ {
		if !deliver(s, &knxnet.RoutingInd{Payload: gateway.Ind(uint32(i + 1))}, sig) {
			return
		}
		if i%17 == 3 && !deliver(s, &knxnet.RoutingBusy{WaitTime: time.Millisecond, Control: 1}, sig) {
			return
		}
	}
	close(start)
	deadline := time.Now().Add(10 * time.Second)
	for {
		mu.Lock()
		k := len(got)
		mu.Unlock()
		if k >= n || time.Now().After(deadline) {
			break
		}
		time.Sleep(200 * time.Microsecond)
	}
	time.Sleep(time.Millisecond)
	rt.Close()
	select {
	case <-readDone:
	case <-time.After(5 * time.Second):
		r.Violate("inbound.not-closed", attrs, map[string]interface{}{"history": sig}, "[%s] Inbound was not closed within 5 s after Close", sig)
		return
	}
	atomic.AddInt64(&nInbound, int64(len(got)))
	cnt := map[uint32]int{}
	for _, id := range got {
		cnt[id]++
	}
	var lost, dup []uint32
	for i := 1; i <= n; i++ {
		switch c := cnt[uint32(i)]; {
		case c == 0:
			lost = append(lost, uint32(i))
		case c > 1:
			dup = append(dup, uint32(i))
		}
	}
	sort.Slice(lost, func(i, j int) bool { return lost[i] < lost[j] })
	if len(lost) > 0 || len(dup) > 0 || len(cnt) > n {
		r.Violate("inbound.exactly-once", attrs, map[string]interface{}{"history": sig, "lost": head(lost), "duplicated": head(dup)}, "[%s] of %d routing indications %d never reached Inbound and %d arrived more than once", sig, n, len(lost), len(dup))
		return
	}
	atomic.AddInt64(&nHist, 1)
	r.Eval(1)
	r.DistinctStr(sig)
}

// strand: rounds of three routing indications against a reader that comes back
// late: after every round all three must have been read. A message stranded in
// the client's overflow queue (queued, but no goroutine left to hand it over)
// shows as a round that never completes.
func strand(seed int64, rounds int) {
	sig := fmt.Sprintf("strand rounds=%d seed=%d", rounds, seed)
	r.Crumb("C14 %s", sig)
	s := memsock.New("udp")
	rt, err := knx.NewRouterOnSocket(s, knx.RouterConfig{})
	if err != nil {
		return
	}
	defer rt.Close()
	in := rt.Inbound()
	fast := time.NewTimer(time.Hour)
	defer fast.Stop()
	next := uint32(1)
	tm := time.NewTimer(time.Hour)
	defer tm.Stop()
	for round := 0; round < rounds; round++ {
		base := next
		for k := 0; k < 3; k++ {
			fast.Reset(10 * time.Second)
			if taken, expired := s.DeliverFast(&knxnet.RoutingInd{Payload: gateway.Ind(next)}, fast); expired || !taken {
				r.Violate("receive-loop.stuck", map[string]string{"workload": "any"}, map[string]interface{}{"history": sig}, "[%s] the receive loop stopped taking indications", sig)
				return
			}
			next++
		}
		tm.Reset(3 * time.Second)
		for k := 0; k < 3; k++ {
			select {
			case m := <-in:
				id, _ := gateway.IDOfMessage(m)
				if id != base+uint32(k) {
					r.Violate("inbound.exactly-once", map[string]string{"workload": "strand"}, map[string]interface{}{"history": sig, "round": round, "got": id, "want": base + uint32(k)}, "[%s] round %d: read message %d where %d was due", sig, round, id, base+uint32(k))
					return
				}
				atomic.AddInt64(&nInbound, 1)
			case <-tm.C:
				r.Violate("inbound.stranded", map[string]string{"workload": "strand"}, map[string]interface{}{"history": sig, "round": round, "missing": base + uint32(k), "goroutines": clip(mon.LibGoroutines("knx-go/knx."))},
					"[%s] round %d: routing indication %d was received by the client but never reached Inbound within 3 s (stranded in the overflow queue)", sig, round, base+uint32(k))
				return
			}
		}
	}
	atomic.AddInt64(&nHist, 1)
	r.Eval(1)
	r.DistinctStr(sig)
}

// realRouter is the loopback slice: the real knx.NewRouter (defaults applied by
// the real constructor) on a per-process multicast group, observed by an
// AF_PACKET capture; lost indications are injected as datagrams.
func realRouter(id int, retain uint) {
	sig := fmt.Sprintf("real-router retain=%d", retain)
	r.Crumb("C14 %s", sig)
	attrs := map[string]string{"workload": "real-router"}
	l, err := mcast.Open(1000 + id)
	if err != nil {
		r.Inconclusive("real-router slice: " + err.Error())
		return
	}
	defer l.Close()
	rt, err := knx.NewRouter(l.Group, knx.RouterConfig{RetainCount: retain})
	if err != nil {
		r.Inconclusive("real-router slice: NewRouter: " + err.Error())
		return
	}
	m := &model{cap: effRetain(retain)}
	n := m.cap + 9
	for i := 1; i <= n; i++ {
		if rt.Send(gateway.Ind(uint32(i))) != nil {
			r.Inconclusive(sig + ": Send failed on the real socket")
			rt.Close()
			return
		}
		m.push(uint32(i))
	}
	if !l.WaitCount(n, 5*time.Second) {
		r.Inconclusive(sig + ": the capture did not see the transmissions; not judged")
		rt.Close()
		return
	}
	ids := func(from int) []uint32 {
		var out []uint32
		for _, f := range l.Frames(from) {
			if p := spec.Parse(f.Bytes); p.OK && p.Service == spec.SvcRoutingInd {
				id, _ := gateway.IDOfBytes(p.Cemi)
				out = append(out, id)
			}
		}
		return out
	}
	for _, k := range []int{3, 65535, 0, 1} {
		from := l.Count()
		want := m.pop(k)
		l.Inject((&spec.Frame{Service: spec.SvcRoutingLost, Count: uint16(k)}).Encode())
		l.WaitCount(from+len(want), 5*time.Second)
		time.Sleep(5 * time.Millisecond)
		got := ids(from)
		atomic.AddInt64(&nLost, 1)
		atomic.AddInt64(&nResent, int64(len(got)))
		if !eq(got, want) {
			r.Violate("resend.sequence", attrs, map[string]interface{}{"history": sig, "lost_count": k, "resent": got, "expected": want},
				"[%s] after a lost indication with count %d the client (built by the real NewRouter) retransmitted %v; expected %v", sig, k, got, want)
			rt.Close()
			return
		}
		for _, w := range want {
			m.push(w)
		}
		if got, ok := retainedIDs(rt, sig); ok && !eq(got, m.list) {
			r.Violate("retained.content", attrs, map[string]interface{}{"history": sig, "retained": got, "model": m.list}, "[%s] the retained list is %v, expected %v (bound %d)", sig, got, m.list, m.cap)
			rt.Close()
			return
		}
	}
	rt.Close()
	select {
	case _, ok := <-rt.Inbound():
		if ok {
			// the injected indications are not routing indications; nothing may surface
			r.Violate("inbound.exactly-once", attrs, map[string]interface{}{"history": sig}, "[%s] a message surfaced on Inbound although no routing indication was received", sig)
		}
	case <-time.After(5 * time.Second):
		r.Violate("inbound.not-closed", attrs, map[string]interface{}{"history": sig}, "[%s] Inbound was not closed within 5 s after Close", sig)
		return
	}
	atomic.AddInt64(&nHist, 1)
	r.Eval(1)
	r.DistinctStr(sig)
}

// groupResend: the group layer on top of the router: what a lost indication
// brings back must be the telegrams that were sent, byte for byte.
func groupResend(seed int64) {
	sig := fmt.Sprintf("group-router resend seed=%d", seed)
	r.Crumb("C14 %s", sig)
	attrs := map[string]string{"workload": "group-router"}
	rng := rand.New(rand.NewSource(seed))
	s := memsock.New("udp")
	gr, err := knx.NewGroupRouterOnSocket(s, knx.RouterConfig{RetainCount: 8})
	if err != nil {
		return
	}
	defer gr.Close()
	var sent [][]byte
	n := 3 + rng.Intn(6)
	for i := 0; i < n; i++ {
		from := s.Len()
		ev := knx.GroupEvent{Command: knx.GroupCommand(rng.Intn(3)), Source: cemi.IndividualAddr(rng.Intn(65536)), Destination: cemi.GroupAddr(1 + rng.Intn(65535)), Data: []byte{byte(i + 1), byte(rng.Intn(256)), byte(i)}}
		if gr.Send(ev) != nil {
			return
		}
		for _, e := range s.LogFrom(from) {
			if e.Kind == memsock.Tx && e.P.Service == spec.SvcRoutingInd {
				sent = append(sent, e.Bytes)
			}
		}
	}
	k := 1 + rng.Intn(n)
	from := s.Len()
	if !deliver(s, &knxnet.RoutingLost{Count: uint16(k)}, sig) || !deliver(s, &knxnet.RoutingLost{Count: 0}, sig) {
		return
	}
	deadline := time.Now().Add(3 * time.Second)
	var got [][]byte
	for time.Now().Before(deadline) {
		got = got[:0]
		for _, e := range s.LogFrom(from) {
			if e.Kind == memsock.Tx && e.P.Service == spec.SvcRoutingInd {
				got = append(got, e.Bytes)
			}
		}
		if len(got) >= k {
			break
		}
		time.Sleep(200 * time.Microsecond)
	}
	time.Sleep(300 * time.Microsecond)
	atomic.AddInt64(&nLost, 1)
	atomic.AddInt64(&nResent, int64(len(got)))
	want := sent[len(sent)-k:]
	same := len(got) == len(want)
	for i := 0; same && i < len(got); i++ {
		same = string(got[i]) == string(want[i])
	}
	if !same {
		r.Violate("resend.sequence", attrs, map[string]interface{}{"history": sig, "lost_count": k, "sent": hexes(sent), "resent": hexes(got)},
			"[%s] after a lost indication with count %d the group router retransmitted %d frames that are not the last %d frames it had sent (byte for byte, in order)", sig, k, len(got), k)
		return
	}
	atomic.AddInt64(&nHist, 1)
	r.Eval(1)
	r.DistinctStr(sig)
}

func hexes(bs [][]byte) []string {
	var out []string
	for _, b := range bs {
		out = append(out, fmt.Sprintf("%x", b))
	}
	return out
}

// busyThenClose: Close falls into the pause a busy indication imposed; every
// Send, waiting or later, must still return (with the socket's error).
func busyThenClose(seed int64) {
	sig := fmt.Sprintf("busy-then-close seed=%d", seed)
	r.Crumb("C14 %s", sig)
	attrs := map[string]string{"workload": "busy-then-close"}
	rng := rand.New(rand.NewSource(seed))
	s := memsock.New("udp")
	rt, err := knx.NewRouterOnSocket(s, knx.RouterConfig{})
	if err != nil {
		return
	}
	rt.Send(gateway.Ind(1))
	if !deliver(s, &knxnet.RoutingBusy{WaitTime: 50 * time.Millisecond, Control: 1}, sig) {
		return
	}
	var wg sync.WaitGroup
	waiting := rng.Intn(3)
	for g := 0; g < waiting; g++ {
		wg.Add(1)
		go func(g int) { defer wg.Done(); rt.Send(gateway.Ind(uint32(10 + g))) }(g)
	}
	time.Sleep(time.Duration(rng.Intn(20)) * time.Millisecond)
	rt.Close()
	wg.Add(1)
	var late error
	go func() { defer wg.Done(); late = rt.Send(gateway.Ind(99)) }()
	done := make(chan struct{})
	go func() { wg.Wait(); close(done) }()
	select {
	case <-done:
		if late == nil {
			r.Violate("send.after-close", attrs, map[string]interface{}{"history": sig}, "[%s] Send after Close reported success", sig)
			return
		}
	case <-time.After(5 * time.Second):
		r.Violate("send.deadlock", attrs, map[string]interface{}{"history": sig, "goroutines": clip(mon.LibGoroutines("knx-go/knx."))}, "[%s] after Close during a busy pause, Sends (waiting or later) did not return within 5 s", sig)
		return
	}
	atomic.AddInt64(&nHist, 1)
	r.Eval(1)
	r.DistinctStr(sig)
}

func head(a []uint32) []uint32 {
	if len(a) > 10 {
		return a[:10]
	}
	return a
}

func tailS(a []string, n int) []string {
	if len(a) > n {
		return a[len(a)-n:]
	}
	return a
}

func clip(ss []string) []string {
	if len(ss) > 5 {
		ss = ss[:5]
	}
	for i := range ss {
		if len(ss[i]) > 1200 {
			ss[i] = ss[i][:1200]
		}
	}
	return ss
}

func run(rr *mon.Run) {
	r = rr
	r.Rule("sequential histories of 300 operations (70 % sends, 8 % failing sends, 6 % busy, 16 % lost indications with counts {0, 1, 2, R-1, R, R+1, 65535, random}) for retain counts {0 (=32), 1, 2, 5, 32, 64}: resent sequence and retained-list snapshots compared exactly with the model; concurrent histories (1..8 senders, 5 % failing, 3..6 lost indications) checked by bound, multiset and a pop-position search; inbound histories with draining / slow / initially absent readers and Close. Distinct = distinct history signatures that ran to completion")
	defer runtime.GOMAXPROCS(runtime.NumCPU())
	retains := []uint{0, 1, 2, 5, 32, 64}
	ns := r.Pick(36, 3000)
	for i := 0; i < ns && !r.Enough(); i++ {
		runtime.GOMAXPROCS([]int{2, 16, 4}[i%3])
		sequential(r.Seed()*9000+int64(i), retains[i%6], 300)
	}
	nc := r.Pick(18, 1500)
	for i := 0; i < nc && !r.Enough(); i++ {
		runtime.GOMAXPROCS([]int{2, 16, 4}[i%3])
		concurrent(r.Seed()*9100+int64(i), retains[(i+1)%6], 1+i%8, 60)
	}
	ni := r.Pick(6, 500)
	for i := 0; i < ni && !r.Enough(); i++ {
		inbound(r.Seed()*9200+int64(i), 300, []string{"draining", "slow", "absent-then-drain"}[i%3])
	}
	if !r.Enough() {
		strand(r.Seed()*9300, r.Pick(30000, 600000))
	}
	for i := 0; i < r.Pick(20, 2000) && !r.Enough(); i++ {
		groupResend(r.Seed()*9400 + int64(i))
		busyThenClose(r.Seed()*9500 + int64(i))
	}
	for i, rc := range []uint{0, 5, 1, 64} {
		if !r.Enough() {
			realRouter(i, rc)
		}
	}
	r.Observe("histories_completed", nHist)
	r.Observe("concurrent_histories_closed_mid_way", nClosedMid)
	r.Observe("sends", nSends)
	r.Observe("failing_sends", nFailed)
	r.Observe("lost_indications", nLost)
	r.Observe("lost_counts", lostCounts)
	r.Observe("retransmissions_observed", nResent)
	r.Observe("retained_list_snapshots", nSnapshots)
	r.Observe("inbound_messages_read", nInbound)
	r.Assume("a lost indication is considered settled once a following no-op indication has been taken (the receive loop handles them in order)")
	if nLost == 0 || nResent == 0 {
		r.Broken("no retransmission observed")
	}
}
