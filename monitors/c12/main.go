// C12 — group events map to/from L_Data frames losslessly; only group
// traffic surfaces. The real GroupTunnel / GroupRouter run on in-memory
// sockets; outbound frames are parsed with the independent L_Data parser,
// inbound frames are built with the independent builder; "no event" is
// decided logically with marker frames (the group layer forwards strictly in
// sequence, so the marker's event arriving first proves the filtered frame
// did not surface).
//
// The binary runs with the timer semantics of a pre-1.23 main module
// (asynctimerchan=1), which is what the library's own go.mod (go 1.16) selects
// when it is built as the main module: a stale tick left in a reused timer's
// channel is visible there and hidden by the newer semantics.

//go:debug asynctimerchan=1
package main

import (
	"strings"
	"sync/atomic"
	"errors"
	"bytes"
	"encoding/hex"
	"fmt"
	"math/rand"
	"time"

	"github.com/vapourismo/knx-go/knx"
	"github.com/vapourismo/knx-go/knx/cemi"
	"github.com/vapourismo/knx-go/knx/knxnet"

	"verif/internal/gen"
	"verif/internal/libx"
	"verif/internal/mcast"
	"verif/internal/memsock"
	"verif/internal/mon"
	"verif/internal/spec"
)

func main() {
	mon.Main("C12", "exploration", mon.Options{QuickTimeout: 20 * time.Minute, ThoroughTimeout: 120 * time.Minute}, run)
}

var r *mon.Run

var nOut, nIn, nSurfaced, nFiltered, nE2E int64

// endpoint abstracts the two group clients.
type endpoint struct {
	kind    string // "tunnel" / "router"
	s       *memsock.Sock
	send    func(knx.GroupEvent) error
	inbound <-chan knx.GroupEvent
	close   func()
	seq     uint8
	channel uint8
}

func newTunnel() (*endpoint, error) {
	s := memsock.New("udp")
	const ch = 0x33
	s.Handler = func(ev memsock.Event) {
		switch ev.P.Service {
		case spec.SvcConnReq:
			// the same channel id is granted again after a reconnect
			s.Deliver(&knxnet.ConnRes{Channel: ch, Control: knxnet.HostInfo{Protocol: knxnet.UDP4}})
		case spec.SvcTunnelReq:
			s.Deliver(&knxnet.TunnelRes{Channel: ev.P.Channel, SeqNumber: ev.P.Seq})
		}
	}
	gt, err := knx.NewGroupTunnelOnSocket(s, knx.TunnelConfig{ResendInterval: 20 * time.Millisecond, HeartbeatInterval: 10 * time.Minute, ResponseTimeout: 2 * time.Second})
	if err != nil {
		return nil, err
	}
	return &endpoint{kind: "tunnel", s: s, send: gt.Send, inbound: gt.Inbound(), close: gt.Close, channel: ch}, nil
}

// newTunnelUDP is the same group tunnel built by the real constructor on the
// library's own UDP socket (the monitor is the gateway at the other end of a
// loopback datagram socket): frame sizes meet the socket's receive buffer.
func newTunnelUDP() (*endpoint, error) {
	s, err := memsock.NewBridge()
	if err != nil {
		return nil, err
	}
	const ch = 0x35
	s.Handler = func(ev memsock.Event) {
		switch ev.P.Service {
		case spec.SvcConnReq:
			s.Deliver(&knxnet.ConnRes{Channel: ch, Control: knxnet.HostInfo{Protocol: knxnet.UDP4}})
		case spec.SvcTunnelReq:
			s.Deliver(&knxnet.TunnelRes{Channel: ev.P.Channel, SeqNumber: ev.P.Seq})
		}
	}
	gt, err := knx.NewGroupTunnel(s.BridgeAddr(), knx.TunnelConfig{ResendInterval: 20 * time.Millisecond, HeartbeatInterval: 10 * time.Minute, ResponseTimeout: 2 * time.Second})
	if err != nil {
		s.CloseBridge()
		return nil, err
	}
	return &endpoint{kind: "tunnel-udp", s: s, send: gt.Send, inbound: gt.Inbound(), close: func() { gt.Close(); s.CloseBridge() }, channel: ch}, nil
}

// lengthSweep: group writes with every payload length 1..254 must surface with
// their payload intact (the largest make the largest frames a tunnel carries).
func lengthSweep(e *endpoint, rng *rand.Rand) bool {
	for l := 1; l <= 254; l++ {
		c := gen.LData(rng, spec.McLDataInd)
		c.Info = nil
		c.Ctrl2 |= 0x80
		d := gen.Bytes(rng, l)
		d[0] &= 0x3f
		c.TPDU = spec.TPDU{Cmd: 2, Data: d}
		if !checkInbound(e, c, fmt.Sprintf("group write with %d payload octets", l)) {
			return false
		}
		atomic.AddInt64(&nLengths, 1)
	}
	return true
}

// ackFailure: the transmission of an acknowledgement fails once (ENOBUFS-like);
// the telegram has been accepted all the same and must surface, the gateway's
// repetition of the request is acknowledged and must not surface again.
func ackFailure(e *endpoint, rng *rand.Rand, n int) bool {
	var failNext atomic.Bool
	e.s.SendFault = func(p spec.Parsed, raw []byte) memsock.Fault {
		if p.Service == spec.SvcTunnelRes && failNext.CompareAndSwap(true, false) {
			return memsock.Fault{Fail: errors.New("injected: no buffer space available")}
		}
		return memsock.Fault{}
	}
	defer func() { e.s.SendFault = nil }()
	for i := 0; i < n; i++ {
		c := gen.LData(rng, spec.McLDataInd)
		c.Ctrl2 |= 0x80
		c.TPDU = spec.TPDU{Cmd: uint8(i % 3), Data: []byte{byte(i & 0x3f), byte(i >> 6), 0x77}}
		failNext.Store(true)
		if !checkInbound(e, c, "group indication whose acknowledgement fails to go out") {
			return false
		}
		// the gateway saw no acknowledgement and repeats the request (same number)
		e.seq--
		from := e.s.Len()
		if !e.inject(spec.EncodeCemi(nil, c)) {
			return false
		}
		atomic.AddInt64(&nAckFailures, 1)
		mc, mev := markerCemi()
		if !e.inject(spec.EncodeCemi(nil, mc)) {
			return false
		}
		got, open, to := readEvent(e, 5*time.Second)
		if to || !open {
			r.Violate("inbound.marker-missing", map[string]string{"client": e.kind}, nil, "[%s] after a repeated request the following marker indication did not surface", e.kind)
			return false
		}
		if !sameEvent(got, mev) {
			r.Violate("inbound.duplicate", map[string]string{"client": e.kind}, map[string]interface{}{"surfaced": fmt.Sprintf("%+v", got)}, "[%s] the repetition of an already accepted request surfaced a second group event %+v", e.kind, got)
			readEvent(e, time.Second)
		}
		// the repetition itself must have been acknowledged
		acked := false
		for _, x := range e.s.LogFrom(from) {
			if x.Kind == memsock.Tx && !x.Err && x.P.Service == spec.SvcTunnelRes && x.P.Seq == e.seq-2 {
				acked = true
			}
		}
		if !acked {
			r.Violate("inbound.repetition-unacknowledged", map[string]string{"client": e.kind}, nil, "[%s] the repetition of request number %d was not acknowledged", e.kind, e.seq-2)
			return false
		}
	}
	return true
}

var nLengths, nAckFailures int64

func newRouter() (*endpoint, error) {
	s := memsock.New("udp")
	gr, err := knx.NewGroupRouterOnSocket(s, knx.RouterConfig{PostSendPauseDuration: 0})
	if err != nil {
		return nil, err
	}
	return &endpoint{kind: "router", s: s, send: gr.Send, inbound: gr.Inbound(), close: gr.Close}, nil
}

// inject hands a cEMI message (bytes) to the client as the wire would.
func (e *endpoint) inject(cemiBytes []byte) bool {
	var frame []byte
	if strings.HasPrefix(e.kind, "tunnel") {
		frame = spec.Header(spec.SvcTunnelReq, append([]byte{4, e.channel, e.seq, 0}, cemiBytes...))
		e.seq++
	} else {
		frame = spec.Header(spec.SvcRoutingInd, cemiBytes)
	}
	var svc knxnet.Service
	if _, err := knxnet.Unpack(frame, &svc); err != nil {
		// the frame is one the decoder rejects: it could never reach the client
		if strings.HasPrefix(e.kind, "tunnel") {
			e.seq--
		}
		return false
	}
	return e.s.Deliver(svc)
}

func normalise(data []byte) []byte {
	if len(data) == 0 {
		return []byte{0}
	}
	d := append([]byte(nil), data...)
	d[0] &= 0x3f
	return d
}

// checkOutbound sends one event and inspects the single frame it produced.
func checkOutbound(e *endpoint, ev knx.GroupEvent) []byte {
	nOut++
	r.Eval(1)
	from := e.s.Len()
	attrs := map[string]string{"client": e.kind}
	cs := map[string]interface{}{"client": e.kind, "event": fmt.Sprintf("%+v", ev)}
	var err error
	if p := mon.Guard(func() { err = e.send(ev) }); p != "" {
		r.Violate("outbound.panic", attrs, cs, "[%s] Send(%+v) panicked: %s", e.kind, ev, p)
		return nil
	}
	if err != nil {
		r.Violate("outbound.error", attrs, cs, "[%s] Send(%+v) failed: %v", e.kind, ev, err)
		return nil
	}
	var frames []memsock.Event
	svc := uint16(spec.SvcTunnelReq)
	wantCode := uint8(spec.McLDataReq)
	if e.kind == "router" {
		svc, wantCode = spec.SvcRoutingInd, spec.McLDataInd
	}
	for _, x := range e.s.LogFrom(from) {
		if x.Kind == memsock.Tx && x.P.Service == svc {
			frames = append(frames, x)
		}
	}
	// retransmissions of the same tunnelling request (same number, same bytes)
	// are one request: the acknowledgement may be slow on a loaded machine
	for len(frames) > 1 && bytes.Equal(frames[len(frames)-1].Bytes, frames[0].Bytes) {
		frames = frames[:len(frames)-1]
	}
	if len(frames) != 1 {
		r.Violate("outbound.frame-count", attrs, cs, "[%s] Send(%+v) emitted %d frames, expected exactly one", e.kind, ev, len(frames))
		return nil
	}
	f := frames[0]
	cs["frame"] = hex.EncodeToString(f.Bytes)
	if !f.P.OK {
		r.Violate("outbound.malformed", attrs, cs, "[%s] Send(%+v) emitted a malformed frame %x", e.kind, ev, f.Bytes)
		return nil
	}
	p := spec.ParseLData(f.P.Cemi)
	wantC1 := uint8(0x3e)
	if len(ev.Data) <= 15 {
		wantC1 |= 0x80
	}
	want := normalise(ev.Data)
	bad := func(field string, got, w interface{}) {
		r.Violate("outbound.field", map[string]string{"client": e.kind, "field": field}, cs, "[%s] Send(%+v): %s on the wire is %v, expected %v (frame %x)", e.kind, ev, field, got, w, f.Bytes)
	}
	switch {
	case !p.OK:
		r.Violate("outbound.malformed", attrs, cs, "[%s] Send(%+v): the cEMI part %x is not a well-formed L_Data message", e.kind, ev, f.P.Cemi)
	case p.Code != wantCode:
		bad("message code", p.Code, wantCode)
	case len(p.Info) != 0:
		bad("additional info length", len(p.Info), 0)
	case p.Ctrl1 != wantC1:
		bad("control field 1", fmt.Sprintf("%#02x", p.Ctrl1), fmt.Sprintf("%#02x (low priority, no repeat, broadcast, ack request, standard frame iff payload <= 15 bytes)", wantC1))
	case p.Ctrl2 != 0xe0:
		bad("control field 2", fmt.Sprintf("%#02x", p.Ctrl2), "0xe0 (group address, hop count 6)")
	case p.Src != uint16(ev.Source):
		bad("source", p.Src, uint16(ev.Source))
	case p.Dst != uint16(ev.Destination):
		bad("destination", p.Dst, uint16(ev.Destination))
	case p.TPDU.Control || p.TPDU.Numbered || p.TPDU.Seq != 0:
		bad("transport control", fmt.Sprintf("%+v", p.TPDU), "unnumbered data unit")
	case p.TPDU.Cmd != uint8(ev.Command):
		bad("application code", p.TPDU.Cmd, uint8(ev.Command))
	case !bytes.Equal(p.TPDU.Data, want):
		bad("payload", hex.EncodeToString(p.TPDU.Data), hex.EncodeToString(want))
	}
	r.DistinctBytes("out-"+e.kind, f.P.Cemi)
	if r.WantSample() && len(ev.Data) > 1 && len(ev.Data) < 8 {
		r.Sample(map[string]interface{}{"direction": "outbound", "client": e.kind, "event": fmt.Sprintf("%+v", ev), "frame": hex.EncodeToString(f.Bytes)})
	}
	return f.P.Cemi
}

func readEvent(e *endpoint, bound time.Duration) (knx.GroupEvent, bool, bool) {
	select {
	case ev, ok := <-e.inbound:
		return ev, ok, false
	case <-time.After(bound):
		return knx.GroupEvent{}, true, true
	}
}

var markerCount uint32

func markerCemi() (*spec.Cemi, knx.GroupEvent) {
	markerCount++
	id := markerCount
	c := &spec.Cemi{Code: spec.McLDataInd, Ctrl1: 0xbc, Ctrl2: 0xe0, Src: 0x11ff, Dst: 0x7fff,
		TPDU: spec.TPDU{Cmd: 2, Data: []byte{0x2a, byte(id >> 16), byte(id >> 8), byte(id)}}}
	return c, knx.GroupEvent{Command: knx.GroupWrite, Source: cemi.IndividualAddr(0x11ff), Destination: cemi.GroupAddr(0x7fff), Data: c.TPDU.Data}
}

func sameEvent(a, b knx.GroupEvent) bool {
	return a.Command == b.Command && a.Source == b.Source && a.Destination == b.Destination && bytes.Equal(a.Data, b.Data)
}

// checkInbound injects one message and decides whether / what surfaced.
func checkInbound(e *endpoint, c *spec.Cemi, what string) bool {
	nIn++
	r.Eval(1)
	b := spec.EncodeCemi(nil, c)
	attrs := map[string]string{"client": e.kind}
	cs := map[string]interface{}{"client": e.kind, "injected": hex.EncodeToString(b), "kind": what}
	should := c.Code == spec.McLDataInd && c.Ctrl2&0x80 != 0 && !c.TPDU.Control && c.TPDU.Cmd < 3
	if !e.inject(b) {
		return true
	}
	r.DistinctBytes("in-"+e.kind, b)
	if should {
		nSurfaced++
		got, open, to := readEvent(e, 5*time.Second)
		want := knx.GroupEvent{Command: knx.GroupCommand(c.TPDU.Cmd), Source: cemi.IndividualAddr(c.Src), Destination: cemi.GroupAddr(c.Dst), Data: c.TPDU.Data}
		if to || !open {
			r.Violate("inbound.missing", attrs, cs, "[%s] a group %s indication (%s) did not surface as a group event", e.kind, knx.GroupCommand(c.TPDU.Cmd), what)
			return !to && open
		}
		if !sameEvent(got, want) {
			cs["got"], cs["want"] = fmt.Sprintf("%+v", got), fmt.Sprintf("%+v", want)
			r.Violate("inbound.fields", attrs, cs, "[%s] indication %x surfaced as %+v, expected %+v", e.kind, b, got, want)
		}
		return true
	}
	nFiltered++
	mc, mev := markerCemi()
	if !e.inject(spec.EncodeCemi(nil, mc)) {
		return false
	}
	got, open, to := readEvent(e, 5*time.Second)
	if to || !open {
		r.Violate("inbound.marker-missing", attrs, cs, "[%s] after injecting %s the following marker indication did not surface (worker stuck or ended)", e.kind, what)
		return false
	}
	if !sameEvent(got, mev) {
		cs["surfaced"] = fmt.Sprintf("%+v", got)
		r.Violate("inbound.unfiltered", attrs, cs, "[%s] %s (%x) must not surface but produced the group event %+v", e.kind, what, b, got)
		// consume the marker too
		readEvent(e, time.Second)
	}
	return true
}

// realGroupRouter is the loopback slice: the real knx.NewGroupRouter on a
// per-process multicast group. Outbound frames are read from an AF_PACKET
// capture and judged with the same independent parser; inbound indications
// are injected as datagrams to the group.
func realGroupRouter(rng *rand.Rand, n int) {
	l, err := mcast.Open(2000)
	if err != nil {
		r.Inconclusive("real group router slice: " + err.Error())
		return
	}
	defer l.Close()
	gr, err := knx.NewGroupRouter(l.Group, knx.RouterConfig{PostSendPauseDuration: 0})
	if err != nil {
		r.Inconclusive("real group router slice: " + err.Error())
		return
	}
	defer gr.Close()
	r.Crumb("C12 real group router")
	attrs := map[string]string{"client": "router-real-socket"}
	for i := 0; i < n; i++ {
		ln := rng.Intn(20)
		if i%6 == 0 {
			ln = gen.Len(rng, 0, 254)
		}
		ev := knx.GroupEvent{Command: knx.GroupCommand(rng.Intn(3)), Source: cemi.IndividualAddr(rng.Intn(65536)), Destination: cemi.GroupAddr(rng.Intn(65536)), Data: gen.Bytes(rng, ln)}
		from := l.Count()
		if err := gr.Send(ev); err != nil {
			r.Violate("outbound.error", attrs, map[string]interface{}{"event": fmt.Sprintf("%+v", ev)}, "[real group router] Send failed: %v", err)
			return
		}
		if !l.WaitCount(from+1, 3*time.Second) {
			r.Inconclusive("real group router slice: the capture did not see a transmission; slice not judged")
			return
		}
		r.Eval(1)
		nOut++
		fr := l.Frames(from)
		if len(fr) != 1 {
			time.Sleep(2 * time.Millisecond)
			fr = l.Frames(from)
		}
		if len(fr) != 1 {
			r.Violate("outbound.frame-count", attrs, map[string]interface{}{"event": fmt.Sprintf("%+v", ev)}, "[real group router] Send(%+v) put %d datagrams on the wire", ev, len(fr))
			return
		}
		pp := spec.Parse(fr[0].Bytes)
		p := spec.ParseLData(pp.Cemi)
		wantC1 := uint8(0x3e)
		if len(ev.Data) <= 15 {
			wantC1 |= 0x80
		}
		if !pp.OK || pp.Service != spec.SvcRoutingInd || !p.OK || p.Code != spec.McLDataInd || p.Ctrl1 != wantC1 || p.Ctrl2 != 0xe0 || p.Src != uint16(ev.Source) || p.Dst != uint16(ev.Destination) ||
			p.TPDU.Control || p.TPDU.Cmd != uint8(ev.Command) || !bytes.Equal(p.TPDU.Data, normalise(ev.Data)) {
			r.Violate("outbound.field", map[string]string{"client": "router-real-socket", "field": "any"}, map[string]interface{}{"event": fmt.Sprintf("%+v", ev), "datagram": hex.EncodeToString(fr[0].Bytes)},
				"[real group router] Send(%+v) put %x on the wire, which is not the prescribed L_Data.ind frame", ev, fr[0].Bytes)
			return
		}
		// inbound through the real socket: an injected group write surfaces unchanged
		if i%4 == 0 {
			mc, mev := markerCemi()
			l.Inject(spec.Header(spec.SvcRoutingInd, spec.EncodeCemi(nil, mc)))
			select {
			case got, ok := <-gr.Inbound():
				if !ok || !sameEvent(got, mev) {
					r.Violate("inbound.fields", attrs, map[string]interface{}{"got": fmt.Sprintf("%+v", got)}, "[real group router] an injected group write surfaced as %+v, expected %+v", got, mev)
					return
				}
				nIn++
			case <-time.After(3 * time.Second):
				r.Violate("inbound.missing", attrs, nil, "[real group router] an injected group write did not surface")
				return
			}
		}
	}
	r.DistinctStr("real-group-router")
}

func kindName(code uint8) string {
	switch code {
	case spec.McLDataReq:
		return "L_Data.req"
	case spec.McLDataInd:
		return "L_Data.ind"
	case spec.McLDataCon:
		return "L_Data.con"
	case spec.McLRawReq:
		return "L_Raw.req"
	case spec.McLRawInd:
		return "L_Raw.ind"
	case spec.McLRawCon:
		return "L_Raw.con"
	case spec.McLBusmonInd:
		return "L_Busmon.ind"
	}
	return fmt.Sprintf("unsupported code %#02x", code)
}

func run(rr *mon.Run) {
	r = rr
	r.Rule("outbound: commands {read, response, write} x payload lengths 0..254 (every length) x first bytes 0..255 (every value) x sampled sources/destinations through GroupTunnel and GroupRouter, each emitted frame parsed independently; inbound: full product {7 message kinds + unsupported code} x {group, individual} x APCI 0..15 x {data, control unit} (+ random L_Data.ind frames), surfaced iff L_Data.ind and group and data unit and APCI < 3, decided with marker frames; end to end A -> wire -> B. Distinct = distinct cEMI byte strings per direction and client (hash set)")
	rng := rand.New(rand.NewSource(r.Seed()*613 + 9))
	// loopback slice first: the real constructor and UDP socket, every payload length inbound
	if e, err := newTunnelUDP(); err != nil {
		r.Inconclusive("tunnel over the real UDP socket: " + err.Error())
	} else {
		r.Crumb("C12 tunnel-udp length sweep")
		lengthSweep(e, rng)
		e.close()
	}
	for _, mk := range []func() (*endpoint, error){newTunnel, newRouter} {
		e, err := mk()
		if err != nil {
			r.Violate("connect.failed", nil, nil, "cannot start group client: %v", err)
			continue
		}
		r.Crumb("C12 %s outbound", e.kind)
		// --- outbound: every length, every first byte
		for cmd := 0; cmd < 3; cmd++ {
			for l := 0; l <= 254; l++ {
				d := gen.Bytes(rng, l)
				checkOutbound(e, knx.GroupEvent{Command: knx.GroupCommand(cmd), Source: cemi.IndividualAddr(gen.U16(rng)), Destination: cemi.GroupAddr(gen.U16(rng)), Data: d})
			}
			for fb := 0; fb < 256; fb++ {
				d := append([]byte{byte(fb)}, gen.Bytes(rng, rng.Intn(3))...)
				checkOutbound(e, knx.GroupEvent{Command: knx.GroupCommand(cmd), Source: cemi.IndividualAddr(gen.U16(rng)), Destination: cemi.GroupAddr(gen.U16(rng)), Data: d})
			}
		}
		nrand := r.Pick(3000, 300000)
		for i := 0; i < nrand; i++ {
			l := rng.Intn(20)
			if i%5 == 0 {
				l = gen.Len(rng, 0, 254)
			}
			checkOutbound(e, knx.GroupEvent{Command: knx.GroupCommand(rng.Intn(3)), Source: cemi.IndividualAddr(rng.Intn(65536)), Destination: cemi.GroupAddr(rng.Intn(65536)), Data: gen.Bytes(rng, l)})
		}
		// --- inbound: full product
		r.Crumb("C12 %s inbound", e.kind)
		codes := append(append([]uint8(nil), spec.MessageCodes...), 0x13)
		ok := true
		for rep := 0; rep < r.Pick(2, 20) && ok; rep++ {
			for _, code := range codes {
				for grp := 0; grp < 2 && ok; grp++ {
					for apci := 0; apci < 16 && ok; apci++ {
						for ctl := 0; ctl < 2 && ok; ctl++ {
							what := fmt.Sprintf("%s, %s address, APCI %d, %s unit", kindName(code), []string{"individual", "group"}[grp], apci, []string{"data", "control"}[ctl])
							var c *spec.Cemi
							if spec.IsLData(code) {
								c = &spec.Cemi{Code: code, Ctrl1: gen.U8(rng), Ctrl2: gen.U8(rng)&0x7f | uint8(grp)<<7, Src: gen.U16(rng), Dst: gen.U16(rng)}
								if rng.Intn(4) == 0 {
									c.Info = gen.Bytes(rng, 1+rng.Intn(8))
								}
								if ctl == 1 {
									c.TPDU = spec.TPDU{Control: true, Cmd: uint8(apci & 3), Numbered: apci&4 != 0}
								} else {
									c.TPDU = spec.TPDU{Cmd: uint8(apci), Data: gen.Bytes(rng, 1+rng.Intn(16))}
									c.TPDU.Data[0] &= 0x3f
								}
							} else {
								// raw / busmon / unsupported: make the bytes look like a group write
								inner := spec.EncodeCemi(nil, &spec.Cemi{Code: spec.McLDataInd, Ctrl1: 0xbc, Ctrl2: uint8(grp)<<7 | 0x60, Src: 1, Dst: 2, TPDU: spec.TPDU{Cmd: uint8(apci), Data: []byte{1}}})
								c = &spec.Cemi{Code: code, Raw: inner[1:]}
							}
							ok = checkInbound(e, c, what)
						}
					}
				}
			}
		}
		if ok {
			ok = lengthSweep(e, rng)
		}
		if e.kind == "tunnel" && ok {
			ok = ackFailure(e, rng, r.Pick(40, 2000))
		}
		// a gateway-initiated disconnect and reconnect in the middle: group events
		// must keep surfacing on the new connection (numbering restarts at 0)
		if e.kind == "tunnel" && ok {
			from := e.s.Len()
			e.s.Deliver(&knxnet.DiscReq{Channel: e.channel})
			if !e.s.WaitTx(spec.SvcConnReq, from, 1, 5*time.Second) {
				r.Violate("inbound.no-reconnect", map[string]string{"client": e.kind}, nil, "[tunnel] no connect request after a disconnect request")
				ok = false
			}
			time.Sleep(5 * time.Millisecond)
			e.seq = 0
			for i := 0; i < 4 && ok; i++ {
				c := gen.LData(rng, spec.McLDataInd)
				c.Ctrl2 |= 0x80
				c.TPDU = spec.TPDU{Cmd: uint8(i % 3), Data: []byte{byte(i + 1), 0x66}}
				ok = checkInbound(e, c, "group indication after a reconnect")
			}
		}
		// random indications
		for i := 0; i < r.Pick(1500, 150000) && ok; i++ {
			c := gen.LData(rng, spec.McLDataInd)
			if rng.Intn(2) == 0 {
				c.Ctrl2 |= 0x80
				c.TPDU.Control = false
				c.TPDU.Numbered, c.TPDU.Seq = false, 0
				c.TPDU.Cmd = uint8(rng.Intn(4))
				if len(c.TPDU.Data) == 0 {
					c.TPDU.Data = []byte{byte(rng.Intn(64))}
				}
			}
			ok = checkInbound(e, c, "random L_Data.ind")
		}
		// an event after an idle period (no traffic for more than a second) must surface like any other
		if ok {
			time.Sleep(1100 * time.Millisecond)
			for i := 0; i < 3 && ok; i++ {
				c := gen.LData(rng, spec.McLDataInd)
				c.Ctrl2 |= 0x80
				c.TPDU = spec.TPDU{Cmd: uint8(i), Data: []byte{byte(i + 1), 0x55}}
				ok = checkInbound(e, c, "group indication after 1.1 s of silence")
			}
		}
		// closure: closing the underlying client closes the group channel
		e.close()
		select {
		case _, open := <-e.inbound:
			if open {
				// drain whatever was pending
				for open {
					select {
					case _, open = <-e.inbound:
					case <-time.After(3 * time.Second):
						r.Violate("inbound.not-closed", map[string]string{"client": e.kind}, nil, "[%s] group Inbound not closed within 3 s after the underlying client was closed", e.kind)
						open = false
					}
				}
			}
		case <-time.After(3 * time.Second):
			r.Violate("inbound.not-closed", map[string]string{"client": e.kind}, nil, "[%s] group Inbound not closed within 3 s after the underlying client was closed", e.kind)
		}
	}
	// --- end to end: A's bytes are fed to B
	for _, kind := range []string{"tunnel", "router"} {
		mk := newTunnel
		if kind == "router" {
			mk = newRouter
		}
		a, err1 := mk()
		b, err2 := mk()
		if err1 != nil || err2 != nil {
			continue
		}
		r.Crumb("C12 end-to-end %s", kind)
		for i := 0; i < r.Pick(1500, 100000); i++ {
			l := rng.Intn(18)
			if i%7 == 0 {
				l = gen.Len(rng, 0, 254)
			}
			ev := knx.GroupEvent{Command: knx.GroupCommand(rng.Intn(3)), Source: cemi.IndividualAddr(rng.Intn(65536)), Destination: cemi.GroupAddr(rng.Intn(65536)), Data: gen.Bytes(rng, l)}
			wire := checkOutbound(a, ev)
			if wire == nil {
				break
			}
			nE2E++
			w2 := append([]byte(nil), wire...)
			if kind == "tunnel" {
				w2[0] = spec.McLDataInd // the gateway turns the request into an indication on the other side
			}
			if !b.inject(w2) {
				r.Violate("e2e.rejected", map[string]string{"client": kind}, map[string]interface{}{"wire": hex.EncodeToString(w2)}, "[%s] the frame emitted by one client is rejected by the decoder of the other", kind)
				break
			}
			got, open, to := readEvent(b, 5*time.Second)
			want := ev
			want.Data = normalise(ev.Data)
			if to || !open {
				r.Violate("e2e.missing", map[string]string{"client": kind}, map[string]interface{}{"event": fmt.Sprintf("%+v", ev), "wire": hex.EncodeToString(w2)}, "[%s] event %+v sent by one client did not arrive at the other", kind, ev)
				break
			}
			if !sameEvent(got, want) {
				r.Violate("e2e.changed", map[string]string{"client": kind}, map[string]interface{}{"sent": fmt.Sprintf("%+v", ev), "received": fmt.Sprintf("%+v", got), "wire": hex.EncodeToString(w2)},
					"[%s] event sent %+v arrived as %+v", kind, ev, got)
			}
		}
		a.close()
		b.close()
	}
	_ = libx.Dump
	realGroupRouter(rng, r.Pick(300, 20000))
	r.Observe("outbound_events", nOut)
	r.Observe("inbound_frames", nIn)
	r.Observe("inbound_payload_lengths_swept", nLengths)
	r.Observe("acknowledgement_transmission_failures_injected", nAckFailures)
	r.Observe("inbound_expected_to_surface", nSurfaced)
	r.Observe("inbound_expected_filtered_with_marker", nFiltered)
	r.Observe("end_to_end_events", nE2E)
	r.Assume("internal/spec/frames.go L_Data layout; the group layer forwards strictly in sequence (marker technique)")
	if nSurfaced == 0 || nFiltered == 0 {
		r.Broken("inbound product observed nothing")
	}
}
