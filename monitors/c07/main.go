// C07 — datapoint encoding is accurate, monotonic, saturating, of the
// prescribed length and self-decodable.
package main

import (
	"encoding/hex"
	"fmt"
	"math"
	"sort"
	"unicode/utf8"

	"github.com/vapourismo/knx-go/knx/dpt"

	"verif/internal/dptx"
	"verif/internal/mon"
	"verif/internal/spec"
)

func main() { mon.Main("C07", "exploration", mon.Options{}, run) }

var r *mon.Run
var total int64

// the previously returned payload and a copy of it: an encoder that hands out
// shared storage shows as an earlier result changing under a later Pack
var prevPayload, prevCopy []byte
var prevType string

// one long-lived instance per type: an application decodes every telegram of a
// group address into the same variable
var reused = map[string]dpt.Datapoint{}

// encDec packs v, checks length/leading octet/self-decodability and returns
// the decoded instance (nil on violation already reported).
func encDec(d spec.DPT, v dpt.Datapoint, show string) (dpt.Datapoint, []byte) {
	total++
	c := map[string]string{"type": d.Name, "value": show}
	p, pan := dptx.Pack(v)
	if pan != "" {
		r.Violate("encode.panic", map[string]string{"type": d.Name}, c, "%s: Pack(%s) panicked: %s", d.Name, show, pan)
		return nil, nil
	}
	c["payload"] = hex.EncodeToString(p)
	if prevPayload != nil && string(prevPayload) != string(prevCopy) {
		r.Violate("encode.shared-storage", map[string]string{"type": d.Name}, c, "%s: Pack(%s) changed the payload an earlier Pack call (%s) had returned: %x became %x (encodings share storage)", d.Name, show, prevType, prevCopy, prevPayload)
		prevPayload = nil
	}
	prevPayload, prevCopy, prevType = p, append([]byte(nil), p...), d.Name
	if d.Len > 0 && len(p) != d.Len {
		r.Violate("length", map[string]string{"type": d.Name}, c, "%s: Pack(%s) = %x has length %d, the format prescribes %d", d.Name, show, p, len(p), d.Len)
		return nil, p
	}
	if d.Len == 1 {
		if p[0]&^0x3f != 0 {
			r.Violate("highbits", map[string]string{"type": d.Name}, c, "%s: Pack(%s) = %x sets bits above the low 6", d.Name, show, p)
		}
	} else if len(p) > 0 && p[0] != 0 {
		r.Violate("leading-octet", map[string]string{"type": d.Name}, c, "%s: Pack(%s) = %x does not start with a zero octet", d.Name, show, p)
	}
	w := dptx.New(d.Name)
	err, pan := dptx.Unpack(w, p)
	if pan != "" {
		r.Violate("decode.panic", map[string]string{"type": d.Name}, c, "%s: Unpack(Pack(%s) = %x) panicked: %s", d.Name, show, p, pan)
		return nil, p
	}
	if err != nil {
		r.Violate("self-decode", map[string]string{"type": d.Name}, c, "%s: Pack(%s) = %x is rejected by the type's own decoder: %v", d.Name, show, p, err)
		return nil, p
	}
	// decoding into a long-lived instance gives the same value as decoding into a fresh one
	{
		h := reused[d.Name]
		if h == nil {
			h = dptx.New(d.Name)
			reused[d.Name] = h
		}
		before := dptx.Show(h)
		if e2, p2 := dptx.Unpack(h, p); e2 == nil && p2 == "" && !dptx.Equal(h, w) {
			r.Violate("decode.history", map[string]string{"type": d.Name}, c, "%s: %x decodes to %s in a fresh instance but to %s in an instance that held %s before", d.Name, p, dptx.Show(w), dptx.Show(h), before)
			reused[d.Name] = nil
		}
	}
	// the decoded value must own its data: overwrite a copy of the payload it was decoded from
	{
		q := append([]byte(nil), p...)
		w2 := dptx.New(d.Name)
		if e2, p2 := dptx.Unpack(w2, q); e2 == nil && p2 == "" {
			before := dptx.Show(w2)
			for i := range q {
				q[i] ^= 0x5a
			}
			if after := dptx.Show(w2); after != before {
				r.Violate("decode.aliasing", map[string]string{"type": d.Name}, c, "%s: the value decoded from %x changes when the payload buffer is overwritten afterwards (%s -> %s)", d.Name, p, before, after)
			}
		}
	}
	return w, p
}

// floatValues builds the test values for a float-valued type.
func floatValues(d spec.DPT, n int) []float32 {
	var xs []float32
	add := func(f float64) {
		x := float32(f)
		xs = append(xs, x, -x)
		lo, hi := x, x
		for k := 0; k < 3; k++ {
			lo = spec.Float32Next(lo, false)
			hi = spec.Float32Next(hi, true)
			xs = append(xs, lo, hi, -lo, -hi)
		}
	}
	add(0)
	for _, b := range []float64{d.Lo, d.Hi, 1, 100, 255, 273, 327.67, 327.68, 3276.7, 3276.8, 360, 459.6, 670760, 670760.96, 671088.64, 1e6, 1e9, 3.4e38, 1e-3, 1e-30} {
		add(b)
	}
	if d.Family == spec.F16 {
		for e := uint(0); e <= 15; e++ {
			for _, m := range []float64{2046, 2047, 2048, 2049, 1023.5, 1024, 1} {
				add(0.01 * m * float64(uint(1)<<e))
			}
		}
	}
	if d.Family == spec.U8Scaled || d.Family == spec.V16Scaled {
		// every representable step and its midpoints (coarsely for V16)
		steps := 256
		base := 0.0
		if d.Family == spec.V16Scaled {
			steps = 65536
			base = -32768
		}
		stride := 1
		if steps > 256 && !r.Thorough() {
			stride = 7
		}
		for k := 0; k < steps; k += stride {
			v := (base + float64(k)) * d.Scale
			xs = append(xs, float32(v), float32(v+d.Scale/2), float32(v+d.Scale*0.49), float32(v+d.Scale*0.51))
		}
	}
	// log-uniform magnitudes 10^-3 .. 10^9, both signs
	for i := 0; i < n; i++ {
		mag := math.Pow(10, -3+12*r.Rand.Float64())
		if r.Rand.Intn(2) == 0 {
			mag = -mag
		}
		xs = append(xs, float32(mag))
	}
	// uniform inside the documented range
	for i := 0; i < n/4; i++ {
		xs = append(xs, float32(d.Lo+(d.Hi-d.Lo)*r.Rand.Float64()))
	}
	return xs
}

func checkFloatType(d spec.DPT) {
	n := r.Pick(1500, 150000)
	if d.Family == spec.F32 {
		n = r.Pick(300, 20000)
	}
	xs := floatValues(d, n)
	type pair struct{ x, y float64 }
	var pairs []pair
	// reference saturation results
	sat := func(b float64) (float64, bool) {
		v := dptx.New(d.Name)
		dptx.SetFloat(v, float32(b))
		w, _ := encDec(d, v, fmt.Sprintf("bound %v", b))
		if w == nil {
			return 0, false
		}
		return dptx.Float(w), true
	}
	var ylo, yhi float64
	var okLo, okHi bool
	if d.Family != spec.F32 {
		ylo, okLo = sat(d.Lo)
		yhi, okHi = sat(d.Hi)
	}
	for _, x := range xs {
		if math.IsNaN(float64(x)) || math.IsInf(float64(x), 0) {
			continue
		}
		v := dptx.New(d.Name)
		dptx.SetFloat(v, x)
		show := fmt.Sprintf("%v", x)
		w, p := encDec(d, v, show)
		if w == nil {
			continue
		}
		y := dptx.Float(w)
		r.Distinct(mon.Hash64(d.Name, fmt.Sprint(math.Float32bits(x))))
		c := map[string]string{"type": d.Name, "value": show, "payload": hex.EncodeToString(p), "decoded": fmt.Sprint(y)}
		fx := float64(x)
		switch {
		case d.Family == spec.F32:
			if math.Float32bits(float32(y)) != math.Float32bits(x) {
				r.Violate("accuracy", map[string]string{"type": d.Name}, c, "%s: %v encodes to %x which decodes to %v (IEEE format must be exact)", d.Name, x, p, y)
			}
		case fx >= float64(float32(d.Lo)) && fx <= float64(float32(d.Hi)):
			var step float64
			switch d.Family {
			case spec.F16:
				_, e := spec.F16Fields(p[1], p[2])
				step = 0.01 * float64(uint(1)<<e)
			default:
				step = d.Scale
			}
			tol := step*(1+1e-6) + math.Abs(fx)*3e-7 + 1e-9
			if math.Abs(y-fx) > tol {
				r.Violate("accuracy", map[string]string{"type": d.Name}, c, "%s: in-range value %v encodes to %x which decodes to %v: off by %v, more than one quantisation step %v", d.Name, x, p, y, math.Abs(y-fx), step)
			}
			pairs = append(pairs, pair{fx, y})
		default:
			// out of range: saturate at the nearest bound
			want, ok := yhi, okHi
			which := "upper"
			if fx < d.Lo {
				want, ok, which = ylo, okLo, "lower"
			}
			if ok && y != want {
				r.Violate("saturation", map[string]string{"type": d.Name}, c, "%s: out-of-range value %v encodes to %x which decodes to %v instead of the %s bound's image %v", d.Name, x, p, y, which, want)
			}
			if ok {
				pairs = append(pairs, pair{fx, y})
			}
		}
		if r.WantSample() && total%997 == 0 {
			r.Sample(c)
		}
	}
	// monotonicity over everything (saturated values included)
	sort.Slice(pairs, func(i, j int) bool { return pairs[i].x < pairs[j].x })
	for i := 1; i < len(pairs); i++ {
		if pairs[i].y < pairs[i-1].y {
			r.Violate("monotonic", map[string]string{"type": d.Name}, map[string]string{"type": d.Name, "x1": fmt.Sprint(pairs[i-1].x), "y1": fmt.Sprint(pairs[i-1].y), "x2": fmt.Sprint(pairs[i].x), "y2": fmt.Sprint(pairs[i].y)},
				"%s: encoding is not monotonic: %v -> %v but the larger %v -> %v", d.Name, pairs[i-1].x, pairs[i-1].y, pairs[i].x, pairs[i].y)
			break
		}
	}
}

func checkIntType(d spec.DPT) {
	proto := dptx.New(d.Name)
	var vals []int64
	unsigned := false
	switch d.Family {
	case spec.U8, spec.U8Scene, spec.U8SceneCt:
		unsigned = true
		for i := int64(0); i < 256; i++ {
			vals = append(vals, i)
		}
	case spec.V8:
		for i := int64(-128); i < 128; i++ {
			vals = append(vals, i)
		}
	case spec.U16:
		unsigned = true
		for i := int64(0); i < 65536; i++ {
			vals = append(vals, i)
		}
	case spec.V16:
		for i := int64(-32768); i < 32768; i++ {
			vals = append(vals, i)
		}
	case spec.U32:
		unsigned = true
		vals = append(vals, 0, 1, 255, 256, 65535, 65536, 1<<24-1, 1<<24, 1<<31-1, 1<<31, 1<<32-2, 1<<32-1)
		for i := 0; i < r.Pick(3000, 300000); i++ {
			vals = append(vals, int64(r.Rand.Uint32()))
		}
	case spec.V32:
		vals = append(vals, 0, 1, -1, 255, -256, 65535, -65536, 1<<31-1, -1<<31, -1<<31+1)
		for i := 0; i < r.Pick(3000, 300000); i++ {
			vals = append(vals, int64(int32(r.Rand.Uint32())))
		}
	}
	_ = proto
	for _, x := range vals {
		v := dptx.New(d.Name)
		if unsigned {
			dptx.SetUint(v, uint64(x))
		} else {
			dptx.SetInt(v, x)
		}
		show := fmt.Sprint(x)
		w, p := encDec(d, v, show)
		if w == nil {
			continue
		}
		r.Distinct(mon.Hash64(d.Name, show))
		var y int64
		if unsigned {
			y = int64(dptx.Uint(w))
		} else {
			y = dptx.Int(w)
		}
		want := x
		switch d.Family {
		case spec.U8Scene:
			if x > 63 {
				want = 63
			}
		case spec.U8SceneCt:
			if !(x <= 63 || (x >= 128 && x <= 191)) {
				want = 63
			}
		}
		if y != want {
			r.Violate("accuracy", map[string]string{"type": d.Name}, map[string]string{"type": d.Name, "value": show, "payload": hex.EncodeToString(p), "decoded": fmt.Sprint(y)},
				"%s: %d encodes to %x which decodes to %d, expected %d", d.Name, x, p, y, want)
		}
		// big-endian value octets
		var ref []byte
		switch d.Len {
		case 2:
			ref = []byte{0, byte(want)}
		case 3:
			ref = []byte{0, byte(want >> 8), byte(want)}
		case 5:
			ref = []byte{0, byte(want >> 24), byte(want >> 16), byte(want >> 8), byte(want)}
		}
		if ref != nil && hex.EncodeToString(ref) != hex.EncodeToString(p) {
			r.Violate("layout", map[string]string{"type": d.Name}, map[string]string{"type": d.Name, "value": show, "payload": hex.EncodeToString(p)},
				"%s: %d encodes to %x, the format prescribes %x", d.Name, x, p, ref)
		}
	}
}

func checkStruct(d spec.DPT) {
	set := func(v dpt.Datapoint, f string, u uint64) { dptx.Field(v, f).SetUint(u) }
	switch d.Family {
	case spec.B1:
		for _, b := range []bool{false, true} {
			v := dptx.New(d.Name)
			dptx.SetBool(v, b)
			w, p := encDec(d, v, fmt.Sprint(b))
			r.Distinct(mon.Hash64(d.Name, fmt.Sprint(b)))
			if w != nil && (dptx.Bool(w) != b || (b && p[0] != 1) || (!b && p[0] != 0)) {
				r.Violate("accuracy", map[string]string{"type": d.Name}, nil, "%s: %v encodes to %x which decodes to %v", d.Name, b, p, dptx.Bool(w))
			}
		}
	case spec.Time:
		wds := append(seq(0, 10), 255)
		hs := append(seq(0, 26), 31, 32, 255)
		ms := append(seq(0, 61), 63, 64, 128, 255)
		for _, wd := range wds {
			for _, h := range hs {
				for _, m := range ms {
					for _, s := range ms {
						if !r.Thorough() && (m+s+h)%3 != 0 && !(m <= 1 || s <= 1 || m >= 59 || s >= 59) {
							continue
						}
						v := dptx.New(d.Name)
						set(v, "Weekday", wd)
						set(v, "Hour", h)
						set(v, "Minutes", m)
						set(v, "Seconds", s)
						show := fmt.Sprintf("{wd %d %d:%d:%d}", wd, h, m, s)
						w, p := encDec(d, v, show)
						if w == nil {
							continue
						}
						r.Distinct(mon.Hash64(d.Name, show))
						valid := wd <= 7 && h <= 23 && m <= 59 && s <= 59
						want := []byte{0, 0, 0, 0}
						if valid {
							want = []byte{0, byte(wd<<5 | h), byte(m), byte(s)}
						}
						if hex.EncodeToString(p) != hex.EncodeToString(want) {
							r.Violate("layout", map[string]string{"type": d.Name}, map[string]string{"value": show, "payload": hex.EncodeToString(p)}, "%s: %s (valid=%v) encodes to %x, expected %x", d.Name, show, valid, p, want)
						} else if valid && !dptx.Equal(v, w) {
							r.Violate("accuracy", map[string]string{"type": d.Name}, map[string]string{"value": show}, "%s: %s decodes back to %s", d.Name, show, dptx.Show(w))
						}
					}
				}
			}
		}
	case spec.Date:
		ys := append(seq(1985, 2095), 0, 90, 99, 1900, 65535)
		mos := append(seq(0, 14), 16, 255)
		ds := append(seq(0, 33), 64, 255)
		for _, y := range ys {
			for _, mo := range mos {
				for _, dd := range ds {
					v := dptx.New(d.Name)
					set(v, "Year", y)
					set(v, "Month", mo)
					set(v, "Day", dd)
					show := fmt.Sprintf("{%d-%d-%d}", y, mo, dd)
					w, p := encDec(d, v, show)
					if w == nil {
						continue
					}
					r.Distinct(mon.Hash64(d.Name, show))
					valid := spec.ValidDate(int(y), int(mo), int(dd))
					want := []byte{0, 0, 0, 0}
					if valid {
						want = []byte{0, byte(dd), byte(mo), byte(y % 100)}
					}
					if hex.EncodeToString(p) != hex.EncodeToString(want) {
						r.Violate("layout", map[string]string{"type": d.Name}, map[string]string{"value": show, "payload": hex.EncodeToString(p)}, "%s: %s (valid=%v) encodes to %x, expected %x", d.Name, show, valid, p, want)
					} else if valid && !dptx.Equal(v, w) {
						r.Violate("accuracy", map[string]string{"type": d.Name}, map[string]string{"value": show}, "%s: %s decodes back to %s", d.Name, show, dptx.Show(w))
					}
				}
			}
		}
	case spec.RGB, spec.XYY, spec.RGBW:
		for i := 0; i < r.Pick(20000, 1000000); i++ {
			v := dptx.New(d.Name)
			rv := dptx.Field(v, "Red")
			_ = rv
			var want []byte
			corner := func() uint64 {
				switch r.Rand.Intn(6) {
				case 0:
					return 0
				case 1:
					return 0xffff
				case 2:
					return 0x80
				}
				return uint64(r.Rand.Intn(65536))
			}
			switch d.Family {
			case spec.RGB:
				a, b, c := corner()&255, corner()&255, corner()&255
				set(v, "Red", a)
				set(v, "Green", b)
				set(v, "Blue", c)
				want = []byte{0, byte(a), byte(b), byte(c)}
			case spec.XYY:
				x, y, br := corner(), corner(), corner()&255
				cv, bv := r.Rand.Intn(2) == 0, r.Rand.Intn(2) == 0
				set(v, "X", x)
				set(v, "Y", y)
				set(v, "YBrightness", br)
				dptx.Field(v, "ColorValid").SetBool(cv)
				dptx.Field(v, "BrightnessValid").SetBool(bv)
				fl := byte(0)
				if cv {
					fl |= 2
				}
				if bv {
					fl |= 1
				}
				want = []byte{0, byte(x >> 8), byte(x), byte(y >> 8), byte(y), byte(br), fl}
			case spec.RGBW:
				a, b, c, w4 := corner()&255, corner()&255, corner()&255, corner()&255
				fl := byte(r.Rand.Intn(16))
				set(v, "Red", a)
				set(v, "Green", b)
				set(v, "Blue", c)
				set(v, "White", w4)
				dptx.Field(v, "RedValid").SetBool(fl&8 != 0)
				dptx.Field(v, "GreenValid").SetBool(fl&4 != 0)
				dptx.Field(v, "BlueValid").SetBool(fl&2 != 0)
				dptx.Field(v, "WhiteValid").SetBool(fl&1 != 0)
				want = []byte{0, byte(a), byte(b), byte(c), byte(w4), 0, fl}
			}
			show := dptx.Show(v)
			w, p := encDec(d, v, show)
			if w == nil {
				continue
			}
			r.Distinct(mon.Hash64(d.Name, show))
			if !dptx.Equal(v, w) {
				r.Violate("accuracy", map[string]string{"type": d.Name}, map[string]string{"value": show, "payload": hex.EncodeToString(p)}, "%s: %s encodes to %x which decodes to %s", d.Name, show, p, dptx.Show(w))
			}
			// XYY flag bit order is checked only through the round trip (the
			// specification's bit assignment is not restated by the property)
			if d.Family != spec.XYY && hex.EncodeToString(p) != hex.EncodeToString(want) {
				r.Violate("layout", map[string]string{"type": d.Name}, map[string]string{"value": show, "payload": hex.EncodeToString(p)}, "%s: %s encodes to %x, the format prescribes %x", d.Name, show, p, want)
			}
			if d.Family == spec.XYY && hex.EncodeToString(p[:6]) != hex.EncodeToString(want[:6]) {
				r.Violate("layout", map[string]string{"type": d.Name}, map[string]string{"value": show, "payload": hex.EncodeToString(p)}, "%s: %s encodes to %x, the format prescribes %x.. for the value octets", d.Name, show, p, want[:6])
			}
		}
	}
}

func seq(a, b uint64) []uint64 {
	var out []uint64
	for i := a; i <= b; i++ {
		out = append(out, i)
	}
	return out
}

func randString(maxRunes int) string {
	n := r.Rand.Intn(maxRunes + 1)
	rs := make([]rune, n)
	class := r.Rand.Intn(5)
	for i := range rs {
		switch c := class; {
		case c == 0:
			rs[i] = rune(0x20 + r.Rand.Intn(0x5f))
		case c == 1:
			rs[i] = rune(1 + r.Rand.Intn(0xff))
		case c == 2:
			rs[i] = rune(1 + r.Rand.Intn(0xfffe))
			if rs[i] >= 0xd800 && rs[i] <= 0xdfff {
				rs[i] = 0x20ac
			}
		case c == 3:
			rs[i] = rune(0x10000 + r.Rand.Intn(0xfffff))
		default:
			rs[i] = []rune{'a', 'ä', 0x7f, 0x80, 0xff, 0x100, '€', 0x1d11e, 0}[r.Rand.Intn(9)]
		}
	}
	return string(rs)
}

func checkStrings(d spec.DPT) {
	n := r.Pick(20000, 2000000)
	for i := 0; i < n; i++ {
		s := randString(40)
		if i%50 == 0 {
			// invalid UTF-8
			s += string([]byte{0xff, 0xc0, 0x80})
		}
		v := dptx.New(d.Name)
		dptx.SetString(v, s)
		show := fmt.Sprintf("%q", s)
		w, p := encDec(d, v, show)
		if w == nil {
			continue
		}
		r.Distinct(mon.Hash64(d.Name, s))
		if d.Family == spec.UTF8 {
			want := append(append([]byte{0}, []byte(s)...), 0)
			if hex.EncodeToString(p) != hex.EncodeToString(want) {
				r.Violate("layout", map[string]string{"type": d.Name}, map[string]string{"value": show, "payload": hex.EncodeToString(p)}, "%s: %s encodes to %x, expected the bytes plus terminator %x", d.Name, show, p, want)
			} else if dptx.String(w) != s {
				r.Violate("accuracy", map[string]string{"type": d.Name}, map[string]string{"value": show}, "%s: %s decodes back to %q", d.Name, show, dptx.String(w))
			}
			continue
		}
		// 16.xxx: 15 bytes, truncated at 14 characters, 0x20 replacement
		max := rune(0xff)
		if d.ASCII {
			max = 0x7f
		}
		want := make([]byte, 15)
		rs := []rune(s)
		for j := 0; j < len(rs) && j < 14; j++ {
			if rs[j] > max {
				want[j+1] = 0x20
			} else {
				want[j+1] = byte(rs[j])
			}
		}
		if hex.EncodeToString(p) != hex.EncodeToString(want) {
			r.Violate("layout", map[string]string{"type": d.Name}, map[string]string{"value": show, "payload": hex.EncodeToString(p)}, "%s: %s encodes to %x, expected %x (14 characters, 0x20 for characters outside the set)", d.Name, show, p, want)
			continue
		}
		// decoded string = characters up to the first NUL
		var exp []rune
		for j := 1; j < 15 && want[j] != 0; j++ {
			exp = append(exp, rune(want[j]))
		}
		if dptx.String(w) != string(exp) {
			r.Violate("accuracy", map[string]string{"type": d.Name}, map[string]string{"value": show}, "%s: %s decodes back to %q, expected %q", d.Name, show, dptx.String(w), string(exp))
		}
		_ = utf8.RuneError
	}
}

func run(run *mon.Run) {
	r = run
	names := dptx.Names()
	r.Rule("per registered type, generated Go values: float types - log-uniform magnitudes 1e-3..1e9 both signs, every range bound +-3 ulps, neighbours of every 16-bit-float exponent switch, every step and step midpoint of the scaled integer types; integer types - every value of 8/16-bit types, corners+random of 32-bit; struct types - grids including out-of-range fields; strings up to 40 runes over ASCII/Latin-1/BMP/astral/invalid UTF-8. Distinct = distinct (type, value) by hash; non-trivial = value was encoded and the oracle compared the decoded result (every generated value)")
	for _, name := range names {
		d, err := spec.Lookup(name)
		if err != nil {
			r.Inconclusive("no reference row for registered type " + name + ": " + err.Error())
			continue
		}
		r.Crumb("C07 type=%s", name)
		switch d.Family {
		case spec.U8Scaled, spec.V16Scaled, spec.F16, spec.F32:
			if dptx.Kind(dptx.New(name)).String() != "float32" {
				r.Inconclusive("type " + name + " is not float32-valued as the reference expects")
				continue
			}
			checkFloatType(d)
		case spec.U8, spec.U8Scene, spec.U8SceneCt, spec.V8, spec.U16, spec.V16, spec.U32, spec.V32:
			checkIntType(d)
		case spec.Str14, spec.UTF8:
			checkStrings(d)
		default:
			checkStruct(d)
		}
	}
	r.Eval(total)
	r.Observe("types", len(names))
	r.Assume("reference table internal/spec/dpt.go: documented ranges, steps and layouts from 03_07_02; the documented range of 9.026 is taken as +-670760 as the library documents it")
}
