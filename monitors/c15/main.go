// C15 — encoders write exactly the size they report, independent of stale
// buffer bytes. Oracle: guard bytes around the destination, three different
// pre-fills, exact-capacity second run, header length arithmetic, datagram
// length seen by a loopback peer; oversize variable parts must truncate to
// the field limit (independent builder gives the expected bytes).
package main

import (
	"bytes"
	"encoding/hex"
	"fmt"
	"math/rand"
	"net"
	"runtime"
	"sync"
	"sync/atomic"
	"time"

	"github.com/vapourismo/knx-go/knx/cemi"
	"github.com/vapourismo/knx-go/knx/knxnet"
	"github.com/vapourismo/knx-go/knx/util"

	"verif/internal/gen"
	"verif/internal/libx"
	"verif/internal/mon"
	"verif/internal/spec"
)

func main() { mon.Main("C15", "exploration", mon.Options{}, run) }

var r *mon.Run
var nLonger int64

const frontGuard, rearGuard = 16, 64

var nPackables, nOversize, nNonLatin, nFrames, nDatagrams int64

func trunc(s string) string {
	if len(s) > 400 {
		return s[:400] + "…"
	}
	return s
}

// packInto runs pack(dst) with dst = arena[front : front+size] whose capacity
// is either exact or reaches into the rear guard; it returns the written
// region and guard status.
func packInto(size int, fill int, seed int64, exact bool, pack func(dst []byte)) (out []byte, guardHit string, pan string) {
	arena := make([]byte, frontGuard+size+rearGuard)
	switch fill {
	case 0:
	case 1:
		for i := range arena {
			arena[i] = 0xff
		}
	default:
		rand.New(rand.NewSource(seed)).Read(arena)
	}
	ref := append([]byte(nil), arena...)
	dst := arena[frontGuard : frontGuard+size]
	if exact {
		dst = arena[frontGuard : frontGuard+size : frontGuard+size]
	}
	pan = mon.Guard(func() { pack(dst) })
	for i := 0; i < frontGuard; i++ {
		if arena[i] != ref[i] {
			guardHit = fmt.Sprintf("front guard byte %d changed", i-frontGuard)
			break
		}
	}
	for i := frontGuard + size; i < len(arena) && guardHit == ""; i++ {
		if arena[i] != ref[i] {
			guardHit = fmt.Sprintf("byte %d beyond the reported size %d was written", i-frontGuard, size)
		}
	}
	return append([]byte(nil), arena[frontGuard:frontGuard+size]...), guardHit, pan
}

// checkPackable applies the guard / pre-fill oracle to one (Size, Pack) pair.
// want may be nil (no independent expectation).
func checkPackable(kind string, desc string, sizeFn func() uint, pack func(dst []byte), want []byte) {
	r.Eval(1)
	atomic.AddInt64(&nPackables, 1)
	attrs := map[string]string{"kind": kind}
	cs := map[string]interface{}{"kind": kind, "value": trunc(desc)}
	var size uint
	if p := mon.Guard(func() { size = sizeFn() }); p != "" {
		r.Violate("size.panic", attrs, cs, "%s.Size() panicked: %s (value %s)", kind, p, trunc(desc))
		return
	}
	if size > 1<<20 {
		r.Violate("size.absurd", attrs, cs, "%s.Size() = %d", kind, size)
		return
	}
	cs["size"] = size
	var outs [3][]byte
	for fill := 0; fill < 3; fill++ {
		out, guard, pan := packInto(int(size), fill, int64(size)*31+int64(fill), false, pack)
		if pan != "" {
			r.Violate("pack.panic", attrs, cs, "%s.Pack into a buffer of its reported size %d panicked: %s (value %s)", kind, size, pan, trunc(desc))
			return
		}
		if guard != "" {
			r.Violate("pack.overrun", attrs, cs, "%s.Pack: %s (value %s)", kind, guard, trunc(desc))
			return
		}
		outs[fill] = out
	}
	if !bytes.Equal(outs[0], outs[1]) || !bytes.Equal(outs[0], outs[2]) {
		d := 0
		for d < len(outs[0]) && outs[0][d] == outs[1][d] && outs[0][d] == outs[2][d] {
			d++
		}
		cs["zero_fill"], cs["ff_fill"], cs["random_fill"] = hex.EncodeToString(outs[0]), hex.EncodeToString(outs[1]), hex.EncodeToString(outs[2])
		r.Violate("pack.stale-bytes", attrs, cs, "%s.Pack leaves byte %d of its %d bytes dependent on the buffer's previous content (value %s)", kind, d, size, trunc(desc))
		return
	}
	// exact capacity: an overrun would panic instead of landing in the guard
	if _, _, pan := packInto(int(size), 2, 99, true, pack); pan != "" {
		r.Violate("pack.panic-exact", attrs, cs, "%s.Pack into an exact-capacity buffer of %d bytes panicked: %s (value %s)", kind, size, pan, trunc(desc))
		return
	}
	// a destination longer than the reported size (a scratch buffer, frames packed back to
	// back): the same bytes must be written, nothing beyond the reported size touched
	{
		extra := 1 + int(size*7+3)%16
		arena := make([]byte, frontGuard+int(size)+rearGuard)
		rand.New(rand.NewSource(int64(size)*131 + 7)).Read(arena)
		ref := append([]byte(nil), arena...)
		dst := arena[frontGuard : frontGuard+int(size)+extra]
		if pan := mon.Guard(func() { pack(dst) }); pan != "" {
			r.Violate("pack.panic-longer", attrs, cs, "%s.Pack into a buffer %d bytes longer than its reported size %d panicked: %s (value %s)", kind, extra, size, pan, trunc(desc))
			return
		}
		atomic.AddInt64(&nLonger, 1)
		if !bytes.Equal(arena[frontGuard:frontGuard+int(size)], outs[0]) {
			d := 0
			for d < int(size) && arena[frontGuard+d] == outs[0][d] {
				d++
			}
			cs["exact_buffer"], cs["longer_buffer"] = hex.EncodeToString(clip(outs[0])), hex.EncodeToString(clip(arena[frontGuard:frontGuard+int(size)]))
			r.Violate("pack.length-dependent", attrs, cs, "%s.Pack writes different bytes (first at offset %d) when the destination is %d bytes longer than the reported size %d (value %s)", kind, d, extra, size, trunc(desc))
			return
		}
		for i := range arena {
			if (i < frontGuard || i >= frontGuard+int(size)) && arena[i] != ref[i] {
				r.Violate("pack.overrun", attrs, cs, "%s.Pack into a longer destination: byte %d beyond the reported size %d was written (value %s)", kind, i-frontGuard, size, trunc(desc))
				return
			}
		}
	}
	if want != nil && !bytes.Equal(outs[0], want) {
		cs["library"], cs["expected"] = hex.EncodeToString(outs[0]), hex.EncodeToString(want)
		r.Violate("pack.content", attrs, cs, "%s: library wrote %x, the layout (with over-long parts truncated to the field limit) is %x", kind, clip(outs[0]), clip(want))
		return
	}
	r.DistinctBytes(kind, outs[0])
	if r.WantSample() && len(outs[0]) > 8 && len(outs[0]) < 80 {
		r.Sample(map[string]interface{}{"kind": kind, "size": size, "written": hex.EncodeToString(outs[0]), "value": trunc(desc)})
	}
}

func clip(b []byte) []byte {
	if len(b) > 64 {
		return b[:64]
	}
	return b
}

func pk(kind string, p util.Packable, want []byte) {
	checkPackable(kind, libx.Dump(p), p.Size, p.Pack, want)
}

// checkFrame checks the whole frame and each sub-structure.
func checkFrame(f *spec.Frame, latin1 bool) {
	atomic.AddInt64(&nFrames, 1)
	v := libx.Service(f)
	if v == nil {
		return
	}
	var want []byte
	if latin1 {
		want = f.Encode()
	}
	// whole frame through knxnet.Size / knxnet.Pack
	checkPackable(fmt.Sprintf("frame:%#04x", f.Service), libx.Dump(v), func() uint { return knxnet.Size(v) }, func(dst []byte) { knxnet.Pack(dst, v) }, want)
	// header arithmetic
	r.Eval(1)
	var b []byte
	if p := mon.Guard(func() { b = knxnet.AllocAndPack(v) }); p == "" && len(b) >= 6 {
		tl := int(b[4])<<8 | int(b[5])
		if tl != len(b) || uint(len(b)) != 6+v.Size() || uint(len(b)) != knxnet.Size(v) {
			r.Violate("header.length", map[string]string{"service": fmt.Sprintf("%#04x", f.Service)}, map[string]interface{}{"bytes": hex.EncodeToString(b)},
				"service %#04x: header total length %d, buffer %d, 6+Size() %d", f.Service, tl, len(b), 6+v.Size())
		}
	}
	// body alone
	var wantBody []byte
	if want != nil {
		wantBody = want[6:]
	}
	pk(fmt.Sprintf("body:%#04x", f.Service), v, wantBody)
	// sub-structures
	switch f.Service {
	case spec.SvcSearchReq, spec.SvcDescrReq, spec.SvcConnReq, spec.SvcConnStateReq, spec.SvcDiscReq, spec.SvcSearchRes:
		h := libx.HostInfo(f.Control)
		pk("HostInfo", &h, spec.EncodeHPAI(nil, f.Control))
	}
	if f.Service == spec.SvcSearchRes || f.Service == spec.SvcDescrRes {
		d := libx.DevInfo(f.Dev)
		var w []byte
		if latin1 {
			w = spec.EncodeDevInfo(nil, f.Dev)
		}
		pk("DeviceInformationBlock", &d, w)
		s := libx.Families(f.FamType, f.Families)
		pk("SupportedServicesDIB", &s, spec.EncodeFamilies(nil, f.FamType, f.Families))
		for _, fm := range f.Families {
			sf := knxnet.ServiceFamily{Type: knxnet.ServiceFamilyType(fm[0]), Version: fm[1]}
			pk("ServiceFamily", &sf, []byte{fm[0], fm[1]})
			break
		}
	}
	if f.Cemi != nil {
		checkCemi(f.Cemi)
	}
}

func checkCemi(c *spec.Cemi) {
	m := libx.Message(c)
	want := spec.EncodeCemi(nil, c)
	checkPackable(fmt.Sprintf("cemi:%#02x", c.Code), libx.Dump(m), func() uint { return cemi.Size(m) }, func(dst []byte) { cemi.Pack(dst, m) }, want)
	pk(fmt.Sprintf("message:%#02x", c.Code), m, want[1:])
	if spec.IsLData(c.Code) {
		ld := libx.LData(c)
		pk("LData", &ld, want[1:])
		pk("Info", ld.Info, want[1:2+min(len(c.Info), 255)])
		pk("TransportUnit", ld.Data, spec.EncodeTPDU(nil, c.TPDU))
	}
}

func min(a, b int) int {
	if a < b {
		return a
	}
	return b
}

// oversize draws frames whose variable parts exceed their protocol field.
func oversize(rng *rand.Rand) (*spec.Frame, bool) {
	latin1 := true
	switch rng.Intn(4) {
	case 0: // info 256..600
		f := gen.Frame(rng, []uint16{spec.SvcTunnelReq, spec.SvcRoutingInd}[rng.Intn(2)], 1+rng.Intn(2))
		f.Cemi.Info = gen.Bytes(rng, 256+rng.Intn(345))
		return f, latin1
	case 1: // application data 256..600
		f := gen.Frame(rng, []uint16{spec.SvcTunnelReq, spec.SvcRoutingInd}[rng.Intn(2)], 1+rng.Intn(2))
		f.Cemi.TPDU = spec.TPDU{Numbered: rng.Intn(2) == 0, Cmd: uint8(rng.Intn(16)), Data: gen.Bytes(rng, 256+rng.Intn(345))}
		if f.Cemi.TPDU.Numbered {
			f.Cemi.TPDU.Seq = uint8(rng.Intn(16))
		}
		f.Cemi.TPDU.Data[0] &= 0x3f
		if rng.Intn(3) == 0 {
			f.Cemi.Info = gen.Bytes(rng, 256+rng.Intn(100))
		}
		return f, latin1
	case 2: // names of 30..80 Latin-1 characters
		f := gen.Frame(rng, []uint16{spec.SvcSearchRes, spec.SvcDescrRes}[rng.Intn(2)], -1)
		n := 30 + rng.Intn(51)
		f.Dev.Name = make([]byte, n)
		for i := range f.Dev.Name {
			f.Dev.Name[i] = byte(1 + rng.Intn(255))
		}
		return f, latin1
	default: // empty application data (encoded as one zero byte) and 255-byte boundary
		f := gen.Frame(rng, spec.SvcTunnelReq, 1)
		f.Cemi.TPDU = spec.TPDU{Cmd: uint8(rng.Intn(16))}
		if rng.Intn(2) == 0 {
			f.Cemi.TPDU.Data = gen.Bytes(rng, 255)
			f.Cemi.TPDU.Data[0] &= 0x3f
		}
		return f, latin1
	}
}

// nonLatin1 checks device names outside Latin-1 (no independent expectation
// for the name bytes; guards, determinism and the other fields still apply).
func nonLatin1(rng *rand.Rand) {
	atomic.AddInt64(&nNonLatin, 1)
	f := gen.Frame(rng, []uint16{spec.SvcSearchRes, spec.SvcDescrRes}[rng.Intn(2)], -1)
	v := libx.Service(f)
	runes := []rune{'€', 'Ω', '日', '𝄞', 0xfffd, 'a', 'ÿ', 0x100}
	n := 1 + rng.Intn(60)
	rs := make([]rune, n)
	for i := range rs {
		rs[i] = runes[rng.Intn(len(runes))]
	}
	name := string(rs)
	if rng.Intn(4) == 0 {
		name += "\xff\xfe" // invalid UTF-8
	}
	switch d := v.(type) {
	case *knxnet.SearchRes:
		d.DescriptionB.DeviceHardware.FriendlyName = name
	case *knxnet.DescriptionRes:
		d.DeviceHardware.FriendlyName = name
	}
	var before, after []byte
	checkPackable(fmt.Sprintf("frame-nonlatin1:%#04x", f.Service), libx.Dump(v), func() uint { return knxnet.Size(v) }, func(dst []byte) { knxnet.Pack(dst, v) }, nil)
	// everything outside the 30-octet name field must be what the layout says
	if p := mon.Guard(func() { after = knxnet.AllocAndPack(v) }); p != "" {
		return
	}
	f.Dev.Name = nil
	before = f.Encode()
	if len(before) != len(after) {
		r.Violate("nonlatin1.length", nil, map[string]interface{}{"name": name}, "name %q changes the frame length: %d vs %d", name, len(after), len(before))
		return
	}
	off := 6 + 24
	if f.Service == spec.SvcSearchRes {
		off += 8
	}
	for i := range before {
		if i >= off && i < off+30 {
			continue
		}
		if before[i] != after[i] {
			r.Violate("nonlatin1.neighbour", nil, map[string]interface{}{"name": name, "bytes": hex.EncodeToString(after)}, "name %q corrupts byte %d outside the name field", name, i)
			return
		}
	}
	if after[off+29] != 0 {
		r.Violate("nonlatin1.terminator", nil, map[string]interface{}{"name": name, "bytes": hex.EncodeToString(after)}, "name %q: 30-octet name field is not NUL terminated", name)
	}
}

// loopback: the datagram length the peer sees equals the header's total
// length and knxnet.Size.
func loopback(rng *rand.Rand, n int) {
	pc, err := net.ListenUDP("udp4", &net.UDPAddr{IP: net.IPv4(127, 0, 0, 1)})
	if err != nil {
		r.Inconclusive("loopback: cannot listen: " + err.Error())
		return
	}
	defer pc.Close()
	sock, err := knxnet.DialTunnelUDP(pc.LocalAddr().String())
	if err != nil {
		r.Inconclusive("loopback: cannot dial: " + err.Error())
		return
	}
	defer sock.Close()
	buf := make([]byte, 4096)
	for i := 0; i < n; i++ {
		var f *spec.Frame
		if i%3 == 0 {
			f, _ = oversize(rng)
		} else {
			svc := gen.EncodableServices[rng.Intn(len(gen.EncodableServices)-1)]
			f = gen.Frame(rng, svc, -1)
		}
		v := libx.Service(f)
		want := f.Encode()
		r.Eval(1)
		r.Crumb("C15 loopback i=%d frame=%x", i, want)
		var serr error
		if p := mon.Guard(func() { serr = sock.Send(v) }); p != "" {
			r.Violate("socket.send.panic", nil, map[string]interface{}{"value": trunc(libx.Dump(v))}, "TunnelSocket.Send panicked: %s", p)
			continue
		}
		if serr != nil {
			r.Inconclusive("loopback send: " + serr.Error())
			continue
		}
		pc.SetReadDeadline(time.Now().Add(5 * time.Second))
		m, _, err := pc.ReadFromUDP(buf)
		if err != nil {
			r.Inconclusive("loopback read: " + err.Error())
			continue
		}
		atomic.AddInt64(&nDatagrams, 1)
		d := buf[:m]
		if m < 6 || int(d[4])<<8|int(d[5]) != m || uint(m) != knxnet.Size(v) || !bytes.Equal(d, want) {
			r.Violate("socket.datagram", nil, map[string]interface{}{"datagram": hex.EncodeToString(d), "expected": hex.EncodeToString(want)},
				"datagram of %d bytes (header says %d, Size says %d) differs from the frame's layout", m, int(d[4])<<8|int(d[5]), knxnet.Size(v))
		}
	}
}

// loopbackConcurrent: the library itself sends from several goroutines on one
// socket (Send, acknowledgements, heartbeats); every datagram that leaves must
// still be one whole frame whose header length equals the datagram length.
func loopbackConcurrent(n int) {
	pc, err := net.ListenUDP("udp4", &net.UDPAddr{IP: net.IPv4(127, 0, 0, 1)})
	if err != nil {
		return
	}
	defer pc.Close()
	pc.SetReadBuffer(8 << 20)
	sock, err := knxnet.DialTunnelUDP(pc.LocalAddr().String())
	if err != nil {
		return
	}
	defer sock.Close()
	fa := &spec.Frame{Service: spec.SvcTunnelRes, Channel: 1, Seq: 2, Status: 0}
	fb := &spec.Frame{Service: spec.SvcTunnelReq, Channel: 3, Seq: 4, Cemi: &spec.Cemi{Code: spec.McLDataReq, Ctrl1: 0xbc, Ctrl2: 0xe0, Src: 1, Dst: 2, TPDU: spec.TPDU{Cmd: 2, Data: bytes.Repeat([]byte{0x11}, 19)}}}
	fc := &spec.Frame{Service: spec.SvcConnStateReq, Channel: 5, Control: spec.HPAI{Proto: 1, IP: [4]byte{10, 0, 0, 1}, Port: 3671}}
	frames := []*spec.Frame{fa, fb, fc}
	want := map[string]bool{}
	for _, f := range frames {
		want[string(f.Encode())] = true
	}
	var wg sync.WaitGroup
	for g, f := range frames {
		wg.Add(1)
		go func(g int, v knxnet.ServicePackable) {
			defer wg.Done()
			for i := 0; i < n; i++ {
				sock.Send(v)
				if i%64 == 63 {
					time.Sleep(100 * time.Microsecond)
				}
			}
		}(g, libx.Service(f))
	}
	done := make(chan struct{})
	go func() { wg.Wait(); close(done) }()
	buf := make([]byte, 4096)
	bad := 0
	got := 0
	for {
		pc.SetReadDeadline(time.Now().Add(300 * time.Millisecond))
		m, _, err := pc.ReadFromUDP(buf)
		if err != nil {
			select {
			case <-done:
				r.Eval(1)
				r.Observe("concurrent_loopback_datagrams_compared", got)
				return
			default:
				continue
			}
		}
		got++
		atomic.AddInt64(&nDatagrams, 1)
		d := buf[:m]
		if m < 6 || int(d[4])<<8|int(d[5]) != m || !want[string(d)] {
			bad++
			if bad <= 3 {
				hl := -1
				if m >= 6 {
					hl = int(d[4])<<8 | int(d[5])
				}
				r.Violate("socket.datagram-concurrent", nil, map[string]interface{}{"datagram": hex.EncodeToString(d)},
					"three goroutines sending on one socket: a datagram of %d bytes left the socket whose header announces %d bytes / whose bytes are not one of the three frames sent", m, hl)
			}
		}
	}
}

func run(rr *mon.Run) {
	r = rr
	r.Rule("every C02-style generated frame (all encodable services x cEMI kinds) and each of its sub-structures (HostInfo, DIBs, service family, cEMI message, LData, Info, transport unit), plus oversize parts (info 256..600, application data 256..600 and empty, names 30..80 Latin-1 characters, non-Latin-1 / invalid UTF-8 names); each packed 4 times (0x00 / 0xFF / random pre-fill with capacity reaching into a 64-byte rear guard, then exact capacity). Distinct = distinct (structure kind, written bytes) pairs; non-trivial = all (each writes a different byte string)")
	nval := r.Pick(12000, 600000)
	nover := r.Pick(6000, 300000)
	workers := runtime.GOMAXPROCS(0)
	var wg sync.WaitGroup
	for w := 0; w < workers; w++ {
		wg.Add(1)
		go func(w int) {
			defer wg.Done()
			rng := rand.New(rand.NewSource(r.Seed()*7907 + int64(w)*104729 + 3))
			for i := w; i < nval; i += workers {
				svc := gen.EncodableServices[i%len(gen.EncodableServices)]
				f := gen.Frame(rng, svc, (i/len(gen.EncodableServices))%8)
				r.Crumb("C15 frame w=%d i=%d bytes=%x", w, i, f.Encode())
				checkFrame(f, true)
			}
			for i := w; i < nover; i += workers {
				f, latin1 := oversize(rng)
				atomic.AddInt64(&nOversize, 1)
				r.Crumb("C15 oversize w=%d i=%d svc=%#04x", w, i, f.Service)
				checkFrame(f, latin1)
				if i%4 == 0 {
					nonLatin1(rng)
				}
			}
		}(w)
	}
	wg.Wait()
	loopback(rand.New(rand.NewSource(r.Seed()+77)), r.Pick(600, 20000))
	loopbackConcurrent(r.Pick(20000, 400000))
	r.Observe("frames", atomic.LoadInt64(&nFrames))
	r.Observe("packables_checked", atomic.LoadInt64(&nPackables))
	r.Observe("packed_into_longer_destinations", atomic.LoadInt64(&nLonger))
	r.Observe("oversize_frames", atomic.LoadInt64(&nOversize))
	r.Observe("non_latin1_names", atomic.LoadInt64(&nNonLatin))
	r.Observe("loopback_datagrams_compared", atomic.LoadInt64(&nDatagrams))
	r.Assume("internal/spec/frames.go gives the layout, with over-long parts truncated to 255 / 255 / 29+NUL")
	r.Assume("hardware addresses are 6 bytes (other lengths are outside the property's quantifier)")
	if atomic.LoadInt64(&nDatagrams) == 0 {
		r.Inconclusive("no loopback datagram was compared")
	}
}
