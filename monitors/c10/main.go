// C10 — Close always ends the tunnel: no hang, panic, data race or leaked
// goroutine. Built with -race. A library of short scenarios (pending Sends
// over a lossy link, overflowed inbound deliveries, heartbeat exchanges,
// reconnects in progress, gateway-initiated disconnects, a socket that died)
// is run with Close injected after the k-th wire event for every k (quick:
// every 5th), with 1..4 concurrent closers, with and without a reader.
// Oracle: race-detector log classifier, goroutine census, Close / Send /
// Inbound postconditions.
package main

import (
	"os"
	"fmt"
	"math/rand"
	"runtime"
	"strings"
	"sync"
	"sync/atomic"
	"time"

	"github.com/vapourismo/knx-go/knx"
	"github.com/vapourismo/knx-go/knx/knxnet"

	"verif/internal/gateway"
	"verif/internal/memsock"
	"verif/internal/mon"
	"verif/internal/spec"
	"verif/internal/tun"
)

func main() {
	mon.Main("C10", "fault_enumeration", mon.Options{Race: true, QuickTimeout: 25 * time.Minute, ThoroughTimeout: 170 * time.Minute,
		RaceFilter: func(rep mon.RaceReport) string {
			if rep.IsCloseVsSend() {
				// the detector's warning that a send may hit a closed channel: the
				// mechanism the library relies on (helpers recover); its consequence,
				// an escaping panic, is checked separately
				return "benign:close-vs-send"
			}
			if !rep.InvolvesLibrary() {
				return "race.harness"
			}
			return "race.library"
		}}, run)
}

var r *mon.Run

const (
	R = 1 * time.Millisecond
	H = 4 * time.Millisecond
	T = 15 * time.Millisecond
)

type scen struct {
	name string
	// maxEvents: upper bound of wire events (tx) the scenario produces before it idles
	maxEvents int
	// prep configures the gateway before the client exists; run starts the
	// scenario's goroutines once the tunnel is up
	prep func(x *exec)
	run  func(x *exec)
}

type exec struct {
	s      *memsock.Sock
	gw     *gateway.Gateway
	c      *tun.Client
	rng    *rand.Rand
	wg     sync.WaitGroup // scenario goroutines (senders)
	stopGW chan struct{}
}

var nNotClosedAtReturn int64

var (
	nExec, nClosedActive, nDiscReq1, nDiscReq0, nCensusMax int64
	stateHist                                            = map[string]int64{}
	closeDur                                             = map[string]float64{}
)

func cfg() knx.TunnelConfig {
	return knx.TunnelConfig{ResendInterval: R, HeartbeatInterval: H, ResponseTimeout: T}
}

var scenarios = []scen{
	{"pending-sends", 40, nil, func(x *exec) {
		for g := 0; g < 2; g++ {
			x.wg.Add(1)
			go func(g int) {
				defer x.wg.Done()
				for i := 0; i < 6; i++ {
					x.c.Send(g, uint32(g*100+i+1))
				}
			}(g)
		}
	}},
	{"inbound-overflow", 30, nil, func(x *exec) {
		x.wg.Add(1)
		go func() {
			defer x.wg.Done()
			for i := 0; i < 8; i++ {
				select {
				case <-x.stopGW:
					return
				default:
				}
				x.gw.SendToClient(uint32(5000 + i))
			}
		}()
	}},
	{"sends-and-inbound", 60, nil, func(x *exec) {
		x.wg.Add(2)
		go func() {
			defer x.wg.Done()
			for i := 0; i < 6; i++ {
				x.c.Send(0, uint32(i+1))
			}
		}()
		go func() {
			defer x.wg.Done()
			for i := 0; i < 6; i++ {
				select {
				case <-x.stopGW:
					return
				default:
				}
				x.gw.SendToClient(uint32(5000 + i))
			}
		}()
	}},
	{"heartbeat-exchanges", 30, func(x *exec) {
		// answers withheld for a while so that exchanges are open
		n := int32(0)
		x.gw.HeartbeatStatus = func(epoch, k int) (uint8, bool) { return 0, atomic.AddInt32(&n, 1)%3 == 0 }
	}, func(x *exec) {}},
	{"reconnect-in-progress", 40, func(x *exec) {
		// heartbeats die (silence, or "unknown connection" at once so that most close
		// indices fall inside the reconnect), the reconnect is answered late, busy or never
		if x.rng.Intn(3) == 0 {
			x.gw.HeartbeatStatus = func(epoch, k int) (uint8, bool) { return 0, false }
		} else {
			x.gw.HeartbeatStatus = func(epoch, k int) (uint8, bool) { return 0x21, true }
		}
		k := x.rng.Intn(4)
		x.gw.ConnStatus = func(n int) uint8 {
			if n == 1 {
				return 0
			}
			switch k {
			case 0:
				return 0xff // silent
			case 1:
				return 0x24 // busy
			case 2:
				// accepted late: the first requests of each reconnect are lost, so that
				// Close falls into a reconnect that then succeeds
				if n%4 != 1 {
					return 0xff
				}
			}
			return 0
		}
	}, func(x *exec) {
		x.wg.Add(1)
		nSend := 1 + 3*x.rng.Intn(2)
		go func() {
			defer x.wg.Done()
			for i := 0; i < nSend; i++ {
				x.c.Send(0, uint32(i+1))
			}
		}()
	}},
	{"gateway-disconnects", 40, nil, func(x *exec) {
		x.wg.Add(1)
		go func() {
			defer x.wg.Done()
			for i := 0; i < 5; i++ {
				x.c.Send(0, uint32(i+1))
				if i == 1 {
					x.s.Deliver(&knxnet.DiscReq{Channel: x.gw.Channel()})
				}
			}
		}()
	}},
	{"refused-reconnect", 30, func(x *exec) {
		x.gw.ConnStatus = func(n int) uint8 {
			if n == 1 {
				return 0
			}
			return 0x22
		}
	}, func(x *exec) {
		x.wg.Add(1)
		go func() {
			defer x.wg.Done()
			x.c.Send(0, 1)
			x.s.Deliver(&knxnet.DiscReq{Channel: x.gw.Channel()})
			for i := 0; i < 3; i++ {
				x.c.Send(0, uint32(i+2))
			}
		}()
	}},
}

type variant struct {
	scenario int
	k        int // Close after the k-th wire event (-1: after the scenario went idle)
	closers  int
	reader   bool
	kill     int // kill the socket after this wire event (-1 never; 0 = before the scenario starts)
	procs    int
	seed     int64
}

func (v variant) String() string {
	return fmt.Sprintf("%s close@%d closers=%d reader=%v kill@%d procs=%d", scenarios[v.scenario].name, v.k, v.closers, v.reader, v.kill, v.procs)
}

func libGoroutines() []string {
	return mon.LibGoroutines("vapourismo/knx-go/knx.")
}

func one(v variant) {
	sc := scenarios[v.scenario]
	sig := v.String()
	r.Crumb("C10 %s seed=%d", sig, v.seed)
	runtime.GOMAXPROCS(v.procs)
	attrs := map[string]string{"scenario": sc.name}
	cs := func(extra map[string]interface{}) map[string]interface{} {
		m := map[string]interface{}{"variant": sig, "seed": v.seed}
		for k, val := range extra {
			m[k] = val
		}
		return m
	}
	// leftovers of the previous execution must be gone
	if rem := mon.WaitNoLibGoroutines(2*time.Second, nil, "vapourismo/knx-go/knx."); len(rem) > 0 {
		r.Violate("census.previous", attrs, cs(map[string]interface{}{"goroutines": clipStacks(rem)}), "goroutines of the previous execution are still alive 2 s later")
		return
	}
	x := &exec{s: memsock.New("udp"), rng: rand.New(rand.NewSource(v.seed)), stopGW: make(chan struct{})}
	x.gw = gateway.NewGateway(x.s, gateway.RandomPolicy(rand.New(rand.NewSource(v.seed+1)), 0.15, 0.1, 0.1))
	x.gw.Resend, x.gw.Attempts = R, 8
	// trigger: counts wire events inside Send
	var txCount int32
	trigger := make(chan struct{})
	var trigOnce sync.Once
	killed := int32(0)
	x.s.SendFault = func(p spec.Parsed, raw []byte) memsock.Fault {
		n := int(atomic.AddInt32(&txCount, 1))
		if v.kill > 0 && n == v.kill && atomic.CompareAndSwapInt32(&killed, 0, 1) {
			go x.s.Kill()
		}
		if v.k >= 0 && n >= v.k+1 {
			trigOnce.Do(func() { close(trigger) })
		}
		return memsock.Fault{}
	}
	if sc.prep != nil {
		sc.prep(x)
	}
	c, err := tun.Start(x.s, cfg())
	if err != nil {
		// the connect exchange has 15 ms: on a stalled machine it can time out; that is
		// no statement about Close — the execution is not judged
		r.Inconclusive(fmt.Sprintf("%s: the initial connect failed (%v); execution skipped", sig, err))
		nConnectFailed++
		if nConnectFailed > 40 {
			r.Violate("connect.failed", attrs, cs(nil), "the initial connect over a healthy in-memory link failed %d times: %v", nConnectFailed, err)
		}
		return
	}
	x.c = c
	// reader
	readerDone := make(chan struct{})
	if v.reader {
		go func() {
			for range c.T.Inbound() {
			}
			close(readerDone)
		}()
	}
	if v.kill == 0 {
		x.s.Kill()
	}
	sc.run(x)
	// the trigger fires at the k-th wire event, or once the scenario has gone
	// idle (its goroutines returned and no wire event for 4 heartbeat intervals)
	idleCh := make(chan struct{})
	go func() { x.wg.Wait(); close(idleCh) }()
	go func() {
		select {
		case <-idleCh:
		case <-trigger:
			return
		case <-time.After(40*T + 5*time.Second):
		}
		last := atomic.LoadInt32(&txCount)
		quiet := time.Now()
		for time.Since(quiet) < 4*H {
			select {
			case <-trigger:
				return
			case <-time.After(H / 2):
			}
			if n := atomic.LoadInt32(&txCount); n != last && v.k >= 0 {
				last, quiet = n, time.Now()
			}
		}
		trigOnce.Do(func() { close(trigger) })
	}()
	select {
	case <-trigger:
	case <-time.After(60*T + 10*time.Second):
		trigOnce.Do(func() { close(trigger) })
	}
	// state at Close
	sockClosed, _ := x.s.Closed()
	state := "active"
	if sockClosed {
		state = "socket-dead"
	}
	inboundAlreadyClosed := false
	if !v.reader {
		// cannot look without consuming; leave unknown
	} else {
		select {
		case <-readerDone:
			inboundAlreadyClosed = true
			state = "terminated"
		default:
		}
	}
	stateHist[state]++
	discBefore := x.s.CountTx(spec.SvcDiscReq, 0)
	usableAtClose := !sockClosed
	// closers
	type cret struct {
		d        time.Duration
		inbClosed bool
	}
	rets := make(chan cret, v.closers)
	t0 := time.Now()
	can := mon.StartCanary()
	for i := 0; i < v.closers; i++ {
		go func() {
			c.T.Close()
			d := time.Since(t0)
			tRet := time.Now()
			// when ANY Close call returns the teardown must be complete: a receive
			// from Inbound must not block (closed channel, or a parked delivery that
			// is followed by the closed channel)
			probe := func() bool {
				for i := 0; i < 1000; i++ {
					select {
					case _, ok := <-c.T.Inbound():
						if !ok {
							return true
						}
					default:
						return false
					}
				}
				return false
			}
			// strict: no grace period. (Before the fix recorded for C10 the receive loop
			// released Close a few instructions before it closed Inbound.)
			closedNow := probe()
			if !closedNow {
				atomic.AddInt64(&nNotClosedAtReturn, 1)
			}
			_ = tRet
			rets <- cret{d, closedNow}
		}()
	}
	hang := 20*T + 5*time.Second
	worst := time.Duration(0)
	for i := 0; i < v.closers; i++ {
		select {
		case cr := <-rets:
			if cr.d > worst {
				worst = cr.d
			}
			if !cr.inbClosed {
				r.Violate("close.inbound-open", attrs, cs(map[string]interface{}{"goroutines": clipStacks(libGoroutines())}), "[%s] a Close call returned but Inbound was not closed (a range loop over it does not end)", sig)
			}
		case <-time.After(hang):
			r.Violate("close.hang", attrs, cs(map[string]interface{}{"goroutines": clipStacks(libGoroutines())}), "[%s] Close did not return within %v", sig, hang)
			return
		}
	}
	defer can.Stop()
	// the canary keeps running to the end of the execution: every bound below reads
	// the worst stall since the measurement started
	stallSince := func(t time.Time) time.Duration { can.Settle(); return can.StallSince(t) }
	stall := stallSince(t0)
	if ms := float64(worst) / 1e6; ms > closeDur[sc.name] {
		closeDur[sc.name] = ms
	}
	if worst > 3*T+3*stall+20*time.Millisecond && stall <= 250*time.Millisecond {
		r.Violate("close.slow", attrs, cs(map[string]interface{}{"took_ms": float64(worst) / 1e6}), "[%s] Close took %v (bound: 3 x response timeout %v + slack)", sig, worst, T)
	}
	close(x.stopGW)
	// idempotent: a later Close returns at once
	t1 := time.Now()
	done2 := make(chan struct{})
	go func() { c.T.Close(); close(done2) }()
	select {
	case <-done2:
		if d := time.Since(t1); d > T+20*time.Millisecond && d > T+3*stallSince(t1)+20*time.Millisecond {
			r.Violate("close.second-slow", attrs, cs(nil), "[%s] a second Close took %v", sig, d)
		}
	case <-time.After(hang):
		r.Violate("close.hang", attrs, cs(nil), "[%s] a second Close did not return", sig)
		return
	}
	// disconnect requests
	discAfter := x.s.CountTx(spec.SvcDiscReq, 0)
	// failed transmissions (socket dead) are logged as tx with Err; count attempts on a usable socket only
	nDisc := discAfter - discBefore
	if nDisc > 1 {
		r.Violate("close.disconnect-requests", attrs, cs(map[string]interface{}{"count": nDisc}), "[%s] %d disconnect requests were sent by %d Close calls", sig, nDisc, v.closers+1)
	}
	if usableAtClose && !inboundAlreadyClosed {
		nClosedActive++
		if nDisc == 0 {
			// the socket may have died between our look and the Close; only a usable socket obliges
			if dead, _ := x.s.Closed(); !(v.kill >= 0 && dead && atomic.LoadInt32(&killed) == 1) {
				r.Violate("close.no-disconnect-request", attrs, cs(nil), "[%s] Close on a usable socket sent no disconnect request", sig)
			}
		}
	}
	if nDisc == 1 {
		nDiscReq1++
	} else {
		nDiscReq0++
	}
	// Send after Close: error, promptly, never nil
	sres := make(chan error, 1)
	t2 := time.Now()
	go func() { sres <- c.Send(9, 99999) }()
	select {
	case err := <-sres:
		if err == nil {
			r.Violate("close.send-succeeded", attrs, cs(nil), "[%s] Send after Close reported success", sig)
		}
		if d := time.Since(t2); d > T+20*time.Millisecond && d > T+3*stallSince(t2)+20*time.Millisecond {
			r.Violate("close.send-slow", attrs, cs(nil), "[%s] Send after Close took %v to fail", sig, d)
		}
	case <-time.After(hang):
		r.Violate("close.send-hang", attrs, cs(map[string]interface{}{"goroutines": clipStacks(libGoroutines())}), "[%s] Send after Close never returned", sig)
		return
	}
	// scenario goroutines (pending Sends) must return
	idle := make(chan struct{})
	go func() { x.wg.Wait(); close(idle) }()
	select {
	case <-idle:
	case <-time.After(hang + time.Duration(12)*T):
		r.Violate("close.pending-send-hang", attrs, cs(map[string]interface{}{"goroutines": clipStacks(libGoroutines())}), "[%s] a Send that was pending or issued around Close never returned", sig)
		return
	}
	// goroutine census: everything the tunnel started has exited
	rem := mon.WaitNoLibGoroutines(T+R+500*time.Millisecond+3*stall, nil, "vapourismo/knx-go/knx.")
	if len(rem) > 0 {
		if int64(len(rem)) > nCensusMax {
			nCensusMax = int64(len(rem))
		}
		r.Violate("close.goroutine-leak", attrs, cs(map[string]interface{}{"goroutines": clipStacks(rem)}), "[%s] %d goroutine(s) started by the tunnel are still running after Close returned (first: %s)", sig, len(rem), firstLibFrame(rem[0]))
	}
	if dead, _ := x.s.Closed(); !dead {
		r.Violate("close.socket-open", attrs, cs(nil), "[%s] the socket was not closed by Close", sig)
	}
	nExec++
	r.Eval(1)
	r.DistinctStr(sig)
	if r.WantSample() && nExec%97 == 5 {
		r.Sample(map[string]interface{}{"variant": sig, "wire_events_at_close": atomic.LoadInt32(&txCount), "state_at_close": state, "close_took_ms": float64(worst) / 1e6, "disconnect_requests": nDisc})
	}
}

// closeStress: many cheap executions aimed at the instant Close returns — an
// idle tunnel, two closers, the strict Inbound probe right after each return.
func closeStress(n int, seed int64) {
	runtime.GOMAXPROCS(16)
	for i := 0; i < n && !r.Enough(); i++ {
		s := memsock.New("udp")
		gateway.NewGateway(s, nil)
		c, err := tun.Start(s, cfg())
		if err != nil {
			continue
		}
		if i%3 == 0 {
			go c.Send(0, 1)
		}
		var wg sync.WaitGroup
		var open int32
		for k := 0; k < 2; k++ {
			wg.Add(1)
			go func() {
				defer wg.Done()
				c.T.Close()
				for {
					select {
					case _, ok := <-c.T.Inbound():
						if !ok {
							return
						}
					default:
						atomic.AddInt32(&open, 1)
						return
					}
				}
			}()
		}
		wg.Wait()
		nStress++
		if open > 0 {
			r.Violate("close.inbound-open", map[string]string{"scenario": "close-stress"}, map[string]interface{}{"variant": fmt.Sprintf("close-stress #%d", i)},
				"[close-stress #%d] a Close call returned but Inbound was not closed (a range loop over it does not end)", i)
		}
	}
	r.Eval(1)
	r.DistinctStr(fmt.Sprintf("close-stress n=%d", n))
}

var nStress, nConnectFailed int64

func firstLibFrame(stack string) string {
	for _, l := range strings.Split(stack, "\n") {
		if strings.Contains(l, "vapourismo/knx-go/knx.") {
			return strings.TrimSpace(l)
		}
	}
	return ""
}

func clipStacks(ss []string) []string {
	var out []string
	for i, s := range ss {
		if i >= 6 {
			break
		}
		if len(s) > 1500 {
			s = s[:1500]
		}
		out = append(out, s)
	}
	return out
}

func run(rr *mon.Run) {
	r = rr
	r.Rule("executions = scenario x close index k x closers x reader x socket state: 7 scenarios (pending Sends over a lossy link, overflowed inbound deliveries, both, open heartbeat exchanges, reconnect in progress (answered late / busy / never), gateway-initiated disconnect, refused reconnect); Close injected after the k-th wire event for k = 0..max (quick: every 5th) and after the scenario idles; 1..4 concurrent closers; reader present / absent; socket killed before start / mid-way / never; GOMAXPROCS 2 / 16; under the race detector. Distinct = distinct variant signatures that ran to completion")
	defer runtime.GOMAXPROCS(runtime.NumCPU())
	step := r.Pick(1, 1)
	reps := r.Pick(2, 40)
	seed := r.Seed() * 7331
	n := 0
	for rep := 0; rep < reps; rep++ {
		for si, sc := range scenarios {
			for k := -1; k <= sc.maxEvents; k += step {
				n++
				v := variant{scenario: si, k: k, closers: 1 + n%4, reader: n%3 != 0, kill: -1, procs: []int{2, 16}[n%2], seed: seed + int64(n)}
				switch n % 11 {
				case 3:
					v.kill = 0
				case 7:
					v.kill = 2 + n%9
				}
				if r.Enough() {
					continue
				}
				if only := os.Getenv("C10_ONLY"); only != "" && only != sc.name {
					continue
				}
				one(v)
				if k == -1 {
					k = -step // so that the next is 0
				}
			}
		}
	}
	closeStress(r.Pick(4000, 60000), seed)
	r.Observe("close_stress_executions", nStress)
	r.Observe("executions", nExec)
	r.Observe("close_returned_before_inbound_was_closed", nNotClosedAtReturn)
	r.Observe("closed_while_active_and_usable", nClosedActive)
	r.Observe("executions_with_one_disconnect_request", nDiscReq1)
	r.Observe("executions_with_no_disconnect_request", nDiscReq0)
	r.Observe("state_at_close_histogram", stateHist)
	r.Observe("worst_close_duration_ms_by_scenario", closeDur)
	r.Assume("close-vs-send reports of the race detector on the tunnel's channels are the library's intended shutdown mechanism (helpers recover) and are counted, not charged; every other report with a library frame is a violation")
	r.Assume("the race detector sees executed paths only; 'every step' means every wire-event index of the scripted scenarios")
	if nExec == 0 || nClosedActive == 0 {
		r.Broken("no execution reached Close while the tunnel was active")
	}
}
