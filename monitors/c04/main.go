// C04 — the tunnel receiver delivers each in-sequence telegram once and
// acknowledges correctly. Oracle: an online reference model of the receive
// rule driven in lock-step with the order in which the client takes frames
// from the (in-memory) socket: exact acknowledgement trace, delivered
// multiset, no duplicate, nothing unaccepted.
package main

import (
	"errors"
	"fmt"
	"math/rand"
	"runtime"
	"sort"
	"sync"
	"sync/atomic"
	"time"

	"github.com/vapourismo/knx-go/knx"
	"github.com/vapourismo/knx-go/knx/knxnet"

	"verif/internal/gateway"
	"verif/internal/memsock"
	"verif/internal/mon"
	"verif/internal/spec"
	"verif/internal/tun"
)

func main() {
	mon.Main("C04", "exploration", mon.Options{QuickTimeout: 20 * time.Minute, ThoroughTimeout: 120 * time.Minute}, run)
}

var r *mon.Run

type ackT struct{ Ch, Seq, St uint8 }

type step struct {
	Class string
	Ch    uint8
	Seq   uint8
	ID    uint32
}

var classCount = map[string]int64{}
var totalReq, totalAccepted, totalAcks, totalWraps, totalReconnects, totalAckFailures, heartbeatReconnects int64

var errAckSend = errors.New("injected: no buffer space available")

func stream(seed int64, tcp bool, consumer string, procs int, n int, real bool) {
	runtime.GOMAXPROCS(procs)
	rng := rand.New(rand.NewSource(seed))
	sig := fmt.Sprintf("stream tcp=%v consumer=%s procs=%d n=%d real-socket=%v seed=%d", tcp, consumer, procs, n, real, seed)
	r.Crumb("C04 %s", sig)
	network := "udp"
	if tcp {
		network = "tcp"
	}
	s := memsock.New(network)
	if real {
		// loopback slice: the real knx.NewTunnel and the library's UDP socket
		var err error
		if s, err = memsock.NewBridge(); err != nil {
			r.Inconclusive("bridge: " + err.Error())
			return
		}
		defer s.CloseBridge()
	}
	var cmu sync.Mutex
	epoch := 0
	wantNew := true
	failHeartbeat := false
	hbMode := seed%2 == 0 // every second reconnect of these runs is caused by a failed heartbeat
	chanOf := func(e int) uint8 { return uint8(16 + 37*e) }
	s.Handler = func(ev memsock.Event) {
		if ev.P.Service == spec.SvcConnReq {
			cmu.Lock()
			if wantNew { // a repeated connect request gets the same answer
				epoch++
				wantNew = false
			}
			ch := chanOf(epoch)
			cmu.Unlock()
			s.Deliver(&knxnet.ConnRes{Channel: ch, Control: knxnet.HostInfo{Protocol: knxnet.UDP4}})
		}
		if ev.P.Service == spec.SvcConnStateReq {
			// heartbeat: healthy, unless this epoch is to end by a failed heartbeat
			cmu.Lock()
			status := knxnet.ErrCode(0)
			if failHeartbeat && ev.P.Channel == chanOf(epoch) {
				status = knxnet.ErrConnectionID
				failHeartbeat = false
				wantNew = true
			}
			cmu.Unlock()
			s.Deliver(&knxnet.ConnStateRes{Channel: ev.P.Channel, Status: status})
		}
	}
	var failAcks bool = !real && seed%3 == 0
	var ackCtr int32
	if failAcks {
		// transient transmission failures of acknowledgements (ENOBUFS-like): the
		// telegram stays accepted and delivered, the gateway will repeat it
		s.SendFault = func(p spec.Parsed, raw []byte) memsock.Fault {
			if p.Service == spec.SvcTunnelRes && atomic.AddInt32(&ackCtr, 1)%29 == 7 {
				return memsock.Fault{Fail: errAckSend}
			}
			return memsock.Fault{}
		}
	}
	tcfg := knx.TunnelConfig{ResendInterval: 5 * time.Millisecond, HeartbeatInterval: 10 * time.Minute, ResponseTimeout: 200 * time.Millisecond, UseTCP: tcp}
	if hbMode {
		tcfg.HeartbeatInterval = 4 * time.Millisecond
	}
	var c *tun.Client
	var err error
	if real {
		c, err = tun.StartReal(s, tcfg)
	} else {
		c, err = tun.Start(s, tcfg)
	}
	if err != nil {
		r.Violate("connect.failed", nil, map[string]interface{}{"signature": sig}, "connect failed: %v", err)
		return
	}
	// consumer
	var rmu sync.Mutex
	var read []uint32
	stop := make(chan struct{})
	consDone := make(chan struct{})
	startReading := make(chan struct{})
	crng := rand.New(rand.NewSource(seed + 5))
	go func() {
		defer close(consDone)
		if consumer == "stalled" {
			select {
			case <-startReading:
			case <-stop:
				return
			}
		}
		for {
			select {
			case m, ok := <-c.T.Inbound():
				if !ok {
					return
				}
				id, _ := gateway.IDOfMessage(m)
				rmu.Lock()
				read = append(read, id)
				rmu.Unlock()
				if consumer == "intermittent" && crng.Intn(3) == 0 {
					time.Sleep(time.Duration(crng.Intn(300)) * time.Microsecond)
				}
			case <-stop:
				return
			}
		}
	}()
	// model
	ch := chanOf(1)
	expected := uint8(0)
	acceptedInEpoch := 0
	var wantAcks []ackT
	var wantIDs []uint32
	var steps []step
	nextID := uint32(1)
	wraps := 0
	totalReconnectsHere := 0
	reconnectEvery := 90 + rng.Intn(60)
	if seed%2 == 1 {
		reconnectEvery = 700 + rng.Intn(200) // long epochs: the wrap at 256 is crossed
	}
	apply := func(st step) {
		steps = append(steps, st)
		classCount[st.Class]++
		totalReq++
		if st.Ch != ch {
			return
		}
		if tcp {
			wantIDs = append(wantIDs, st.ID)
			return
		}
		if st.Seq == expected {
			expected++
			if expected == 0 {
				wraps++
			}
			acceptedInEpoch++
			wantIDs = append(wantIDs, st.ID)
			wantAcks = append(wantAcks, ackT{ch, st.Seq, 0})
		} else if st.Seq == expected-1 {
			wantAcks = append(wantAcks, ackT{ch, st.Seq, 0})
		}
	}
	countAcks := func() int {
		k := 0
		for _, e := range s.LogFrom(0) {
			if e.Kind == memsock.Tx && !e.Err && e.P.Service == spec.SvcTunnelRes {
				k++
			}
		}
		return k
	}
	deliver := func(st step) bool {
		ok := s.Deliver(&knxnet.TunnelReq{Channel: st.Ch, SeqNumber: st.Seq, Payload: gateway.Ind(st.ID)})
		if real && ok && !tcp {
			// over the real socket the hand-over cannot be observed: the next
			// acknowledgement is the barrier (datagrams on one socket stay in order)
			dl := time.Now().Add(3 * time.Second)
			for countAcks() < len(wantAcks) && time.Now().Before(dl) {
				time.Sleep(50 * time.Microsecond)
			}
		}
		return ok
	}
	for i := 0; i < n; i++ {
		var st step
		st.ID = nextID
		nextID++
		x := rng.Intn(100)
		if !tcp && acceptedInEpoch > 0 && (expected == 0 || expected == 1 || expected == 255) && len(steps) > 0 && steps[len(steps)-1].Class == "in-sequence" {
			x = 70 // directed: a repetition right at the wrap (255 after 0 became expected, 0 after 1, 254 after 255)
		}
		switch {
		case x < 62:
			st = step{"in-sequence", ch, expected, st.ID}
		case x < 74:
			if acceptedInEpoch == 0 && !tcp {
				st = step{"in-sequence", ch, expected, st.ID}
			} else {
				st = step{"repeat-previous", ch, expected - 1, st.ID}
				// a burst of repeats now and then
				if rng.Intn(4) == 0 {
					for k := 0; k < 1+rng.Intn(4); k++ {
						apply(st)
						if !deliver(st) {
							r.Violate("receiver.socket-closed", nil, map[string]interface{}{"signature": sig}, "the client stopped taking frames")
							return
						}
						st.ID = nextID
						nextID++
					}
				}
			}
		case x < 82:
			st = step{"skip-ahead", ch, expected + uint8(1+rng.Intn(200)), st.ID}
		case x < 90:
			k := uint8(2 + rng.Intn(200))
			if acceptedInEpoch == 0 && expected-k == 255 {
				k++
			}
			st = step{"far-behind", ch, expected - k, st.ID}
		default:
			fc := ch + uint8(1+rng.Intn(254))
			sq := expected
			if rng.Intn(2) == 0 {
				sq = uint8(rng.Intn(256))
			}
			st = step{"foreign-channel", fc, sq, st.ID}
		}
		if st.Class == "skip-ahead" && st.Seq == expected-1 && acceptedInEpoch == 0 {
			st.Seq = expected + 1
		}
		if !tcp && acceptedInEpoch == 0 && st.Seq == 255 && st.Ch == ch {
			// before the first accepted telegram of an epoch there is no
			// "preceding" number; the monitor takes no stance on 255 there
			st.Seq = 128
		}
		apply(st)
		if !deliver(st) {
			r.Violate("receiver.socket-closed", nil, map[string]interface{}{"signature": sig, "step": i}, "the client stopped taking frames at step %d", i)
			return
		}
		if i > 0 && i%reconnectEvery == 0 {
			// gateway-initiated disconnect, reconnect, sync point
			from := s.Len()
			how := "a disconnect request"
			if hbMode && totalReconnectsHere%2 == 1 {
				// the gateway has forgotten the connection: the next heartbeat is answered
				// "unknown connection" and the client has to connect again
				how = "a failed heartbeat"
				cmu.Lock()
				failHeartbeat = true
				cmu.Unlock()
				atomic.AddInt64(&heartbeatReconnects, 1)
			} else {
				cmu.Lock()
				wantNew = true
				cmu.Unlock()
				s.Deliver(&knxnet.DiscReq{Channel: ch})
			}
			totalReconnectsHere++
			if !s.WaitTx(spec.SvcConnReq, from, 1, 5*time.Second) {
				r.Violate("receiver.no-reconnect", nil, map[string]interface{}{"signature": sig}, "no connect request after "+how)
				return
			}
			cmu.Lock()
			e := epoch
			cmu.Unlock()
			deadline := time.Now().Add(5 * time.Second)
			for e == 0 || !connResTaken(s, from) {
				if time.Now().After(deadline) {
					r.Violate("receiver.no-reconnect", nil, map[string]interface{}{"signature": sig}, "the connect response of a reconnect was not taken")
					return
				}
				time.Sleep(100 * time.Microsecond)
				cmu.Lock()
				e = epoch
				cmu.Unlock()
			}
			cmu.Lock()
			ch = chanOf(epoch)
			cmu.Unlock()
			expected, acceptedInEpoch = 0, 0
			totalReconnects++
			// the DiscRes answer is part of the wire trace but not of the ack trace
		}
	}
	// barrier: a frame the client ignores; once it is taken, every earlier ack is logged
	s.Deliver(&knxnet.ConnStateRes{Channel: ch + 1})
	s.Deliver(&knxnet.ConnStateRes{Channel: ch + 1})
	if real {
		st := step{"in-sequence", ch, expected, nextID}
		nextID++
		apply(st)
		deliver(st)
		time.Sleep(2 * time.Millisecond)
	}
	close(startReading)
	// drain: every accepted telegram must arrive
	deadline := time.Now().Add(10 * time.Second)
	for {
		rmu.Lock()
		got := len(read)
		rmu.Unlock()
		if got >= len(wantIDs) || time.Now().After(deadline) {
			break
		}
		time.Sleep(200 * time.Microsecond)
	}
	time.Sleep(3 * time.Millisecond) // anything extra still in flight
	close(stop)
	<-consDone
	c.T.Close()
	r.Eval(1)
	r.DistinctStr(sig)
	totalWraps += int64(wraps)
	// compare ack trace
	var gotAcks []ackT
	for _, e := range s.Log() {
		// a failed transmission of an acknowledgement is an attempt the rule asks for
		if e.Kind == memsock.Tx && e.P.Service == spec.SvcTunnelRes {
			gotAcks = append(gotAcks, ackT{e.P.Channel, e.P.Seq, e.P.Status})
			if e.Err {
				totalAckFailures++
			}
		}
	}
	totalAcks += int64(len(gotAcks))
	totalAccepted += int64(len(wantIDs))
	attrs := map[string]string{"tcp": fmt.Sprint(tcp), "consumer": consumer}
	for i := 0; i < len(gotAcks) || i < len(wantAcks); i++ {
		if i >= len(gotAcks) || i >= len(wantAcks) || gotAcks[i] != wantAcks[i] {
			var g, w interface{} = "none", "none"
			if i < len(gotAcks) {
				g = gotAcks[i]
			}
			if i < len(wantAcks) {
				w = wantAcks[i]
			}
			r.Violate("receiver.ack-trace", attrs, map[string]interface{}{"signature": sig, "position": i, "got": fmt.Sprint(g), "want": fmt.Sprint(w), "steps_before": ctx(steps, wantAcks, i)},
				"[%s] acknowledgement #%d on the wire is %v, the receive rule gives %v (acknowledgements sent %d, expected %d)", sig, i, g, w, len(gotAcks), len(wantAcks))
			break
		}
	}
	// compare delivered multiset
	rmu.Lock()
	got := append([]uint32(nil), read...)
	rmu.Unlock()
	wantSet := map[uint32]int{}
	for _, id := range wantIDs {
		wantSet[id]++
	}
	gotSet := map[uint32]int{}
	for _, id := range got {
		gotSet[id]++
	}
	var lost, dup, extra []uint32
	for id := range wantSet {
		if gotSet[id] == 0 {
			lost = append(lost, id)
		}
	}
	for id, k := range gotSet {
		if wantSet[id] == 0 {
			extra = append(extra, id)
		} else if k > 1 {
			dup = append(dup, id)
		}
	}
	sort.Slice(lost, func(i, j int) bool { return lost[i] < lost[j] })
	describe := func(ids []uint32) []string {
		var out []string
		for _, id := range ids {
			for _, st := range steps {
				if st.ID == id {
					out = append(out, fmt.Sprintf("id=%d %s ch=%d seq=%d", id, st.Class, st.Ch, st.Seq))
				}
			}
			if len(out) > 8 {
				break
			}
		}
		return out
	}
	if len(lost) > 0 {
		r.Violate("receiver.lost", attrs, map[string]interface{}{"signature": sig, "lost": describe(lost)}, "[%s] %d accepted telegrams never reached Inbound (first: %v)", sig, len(lost), describe(lost[:1]))
	}
	if len(dup) > 0 {
		r.Violate("receiver.duplicate", attrs, map[string]interface{}{"signature": sig, "duplicated": describe(dup)}, "[%s] %d telegrams were delivered more than once (first: %v)", sig, len(dup), describe(dup[:1]))
	}
	if len(extra) > 0 {
		r.Violate("receiver.unaccepted-delivered", attrs, map[string]interface{}{"signature": sig, "extra": describe(extra)}, "[%s] %d requests that the rule does not accept were delivered (first: %v)", sig, len(extra), describe(extra[:1]))
	}
	if r.WantSample() {
		k := len(steps)
		if k > 12 {
			k = 12
		}
		r.Sample(map[string]interface{}{"workload": sig, "first_steps": steps[:k], "accepted": len(wantIDs), "acks": len(wantAcks), "wraps": wraps})
	}
}

func connResTaken(s *memsock.Sock, from int) bool {
	for _, e := range s.LogFrom(from) {
		if e.Kind == memsock.Rx && e.Taken && e.P.Service == spec.SvcConnRes {
			return true
		}
	}
	return false
}

func ctx(steps []step, want []ackT, pos int) []step {
	// steps around the one that produced the pos-th expected ack are hard to
	// index exactly; give the last few steps instead
	if len(steps) > 6 {
		return steps[len(steps)-6:]
	}
	return steps
}

func run(rr *mon.Run) {
	r = rr
	r.Rule("streams of 1200 tunnelling requests (62 % in sequence, repeats of the previous number singly and in bursts, skips ahead by 1..200, far-behind numbers, foreign channels with matching and random numbers) with a gateway-initiated reconnect every 90..150 requests (even seeds) or every 700..900 requests (odd seeds, so that the wrap at 256 is crossed), against always-ready / intermittent / stalled consumers, UDP and TCP mode, GOMAXPROCS 1/2/4/16. Distinct = distinct (mode, consumer, GOMAXPROCS, seed) stream signatures (each contains reconnects and every request class)")
	defer runtime.GOMAXPROCS(runtime.NumCPU())
	n := r.Pick(72, 1500)
	procs := []int{1, 2, 4, 16}
	consumers := []string{"ready", "intermittent", "stalled"}
	for i := 0; i < n && !r.Enough(); i++ {
		stream(r.Seed()*10000+int64(i), i%4 == 3, consumers[i%3], procs[(i/3)%4], 1200, false)
	}
	for i := 0; i < r.Pick(6, 100) && !r.Enough(); i++ {
		stream(r.Seed()*20000+int64(i), false, consumers[i%3], 16, 400, true)
	}
	r.Observe("requests_injected", totalReq)
	r.Observe("requests_by_class", classCount)
	r.Observe("telegrams_accepted_by_model", totalAccepted)
	r.Observe("acknowledgements_on_the_wire", totalAcks)
	r.Observe("sequence_wraps_crossed", totalWraps)
	r.Observe("reconnects", totalReconnects)
	r.Observe("reconnects_after_failed_heartbeat", heartbeatReconnects)
	r.Observe("acknowledgement_transmissions_failed_by_injection", totalAckFailures)
	r.Assume("frames are injected in lock-step (next frame offered after the previous one was taken), so the acknowledgement trace is totally ordered")
	r.Assume("before the first accepted telegram of an epoch, number 255 is not injected (there is no preceding number yet)")
	if totalAcks == 0 || totalWraps == 0 {
		r.Broken("no acknowledgement / no wrap observed")
	}
}
