// C11 — cEMI L_Data frames have the bit layout the KNX specification
// prescribes. Oracle: an independent layout codec (internal/spec) written
// from the cEMI specification; helpers compared with closed forms over their
// whole 8-bit domains.
package main

import (
	"encoding/hex"
	"fmt"
	"math/rand"

	"github.com/vapourismo/knx-go/knx/cemi"

	"verif/internal/gen"
	"verif/internal/libx"
	"verif/internal/mon"
	"verif/internal/spec"
)

func main() { mon.Main("C11", "exploration", mon.Options{}, run) }

var r *mon.Run

var ldataCodes = []uint8{spec.McLDataReq, spec.McLDataInd, spec.McLDataCon}

func trunc(s string) string {
	if len(s) > 400 {
		return s[:400] + "…"
	}
	return s
}

// checkFrame: library encoding == specification layout; library decoding of
// the specification layout == the value; independent parse of the library's
// bytes gives the fields back.
func checkFrame(c *spec.Cemi, stratum string) {
	r.Eval(1)
	want := spec.EncodeCemi(nil, c)
	m := libx.Message(c)
	attrs := map[string]string{"stratum": stratum}
	cs := map[string]interface{}{"value": trunc(libx.Dump(m)), "layout": hex.EncodeToString(want), "stratum": stratum}
	var got []byte
	if p := mon.Guard(func() { got = make([]byte, cemi.Size(m)); cemi.Pack(got, m) }); p != "" {
		r.Violate("encode.panic", attrs, cs, "cemi.Pack panicked on %s: %s", trunc(libx.Dump(m)), p)
		return
	}
	// the same bytes must result when the buffer held something else before
	var got2 []byte
	if p := mon.Guard(func() {
		got2 = make([]byte, cemi.Size(m))
		for i := range got2 {
			got2[i] = 0xff
		}
		cemi.Pack(got2, m)
	}); p == "" && string(got2) != string(got) {
		cs["into_zeroed_buffer"], cs["into_0xff_buffer"] = hex.EncodeToString(got), hex.EncodeToString(got2)
		r.Violate("encode.stale-bits", attrs, cs, "L_Data %s: encoding depends on the previous content of the buffer: %x into a zeroed buffer, %x into a buffer of 0xff (octet %d)", trunc(libx.Dump(m)), clip(got), clip(got2), firstDiff(got, got2))
		return
	}
	if string(got) != string(want) {
		cs["library"] = hex.EncodeToString(got)
		r.Violate("encode.layout", attrs, cs, "L_Data %s: library bytes %x differ from the cEMI layout %x (first difference at octet %d)", trunc(libx.Dump(m)), clip(got), clip(want), firstDiff(got, want))
		return
	}
	// independent parse of what the library wrote
	p := spec.ParseLData(got)
	if !p.OK || p.Code != c.Code || string(p.Info) != string(c.Info) || p.Ctrl1 != c.Ctrl1 || p.Ctrl2 != c.Ctrl2 || p.Src != c.Src || p.Dst != c.Dst ||
		p.TPDU.Control != c.TPDU.Control || p.TPDU.Numbered != c.TPDU.Numbered || p.TPDU.Seq != c.TPDU.Seq || p.TPDU.Cmd != c.TPDU.Cmd || string(p.TPDU.Data) != string(c.TPDU.Data) {
		r.Violate("encode.fields", attrs, cs, "independent parse of the library's bytes %x gives %+v, value was %+v", clip(got), p, *c)
		return
	}
	var dec cemi.Message
	var n uint
	var err error
	if pn := mon.Guard(func() { n, err = cemi.Unpack(want, &dec) }); pn != "" {
		r.Violate("decode.panic", attrs, cs, "cemi.Unpack(%x) panicked: %s", clip(want), pn)
		return
	}
	if err != nil || int(n) != len(want) || dec == nil {
		r.Violate("decode.rejected", attrs, cs, "layout %x: err=%v consumed=%d of %d", clip(want), err, n, len(want))
		return
	}
	// the decoded fields are copies: overwriting the frame afterwards must not change them
	{
		frame := append([]byte(nil), want...)
		var d2 cemi.Message
		if _, e2 := cemi.Unpack(frame, &d2); e2 == nil && d2 != nil {
			before := libx.Dump(d2)
			for i := range frame {
				frame[i] ^= 0xa5
			}
			if after := libx.Dump(d2); after != before {
				r.Violate("decode.aliasing", attrs, cs, "the message decoded from %x changes when the frame buffer is overwritten afterwards: %s -> %s", clip(want), trunc(before), trunc(after))
				return
			}
		}
	}
	if uint8(dec.MessageCode()) != c.Code || libx.Dump(dec) != libx.Dump(m) {
		cs["decoded"] = trunc(libx.Dump(dec))
		r.Violate("decode.fields", attrs, cs, "layout %x decodes to %s, the fields at those positions are %s", clip(want), trunc(libx.Dump(dec)), trunc(libx.Dump(m)))
		return
	}
	if r.WantSample() && len(want) > 11 && len(want) < 40 {
		r.Sample(map[string]interface{}{"bytes": hex.EncodeToString(want), "value": trunc(libx.Dump(m))})
	}
}

func clip(b []byte) []byte {
	if len(b) > 48 {
		return b[:48]
	}
	return b
}

func firstDiff(a, b []byte) int {
	for i := 0; i < len(a) && i < len(b); i++ {
		if a[i] != b[i] {
			return i
		}
	}
	if len(a) != len(b) {
		if len(a) < len(b) {
			return len(a)
		}
		return len(b)
	}
	return -1
}

func helpers() {
	bad := func(tag string, arg int, got, want interface{}) {
		r.Violate("helper."+tag, map[string]string{"helper": tag}, map[string]interface{}{"helper": tag, "arg": arg, "got": fmt.Sprint(got), "want": fmt.Sprint(want)},
			"%s(%d) = %v, the layout prescribes %v", tag, arg, got, want)
	}
	for a := 0; a < 256; a++ {
		r.Eval(6)
		if g, w := uint8(cemi.Control1Prio(cemi.Priority(a))), uint8(a&3)<<2; g != w {
			bad("Control1Prio", a, g, w)
		}
		h := a
		if h > 7 {
			h = 7
		}
		if g, w := uint8(cemi.Control2Hops(uint8(a))), uint8(h)<<4; g != w {
			bad("Control2Hops", a, g, w)
		}
		if g, w := cemi.ControlField2(a).Hops(), uint8(a>>4)&7; g != w {
			bad("ControlField2.Hops", a, g, w)
		}
		if g, w := cemi.Control2Hops(uint8(a)).Hops(), uint8(h); g != w {
			bad("Hops(Control2Hops)", a, g, w)
		}
		if g, w := cemi.ControlField2(a).IsGroupAddr(), a&0x80 != 0; g != w {
			bad("ControlField2.IsGroupAddr", a, g, w)
		}
		if g, w := cemi.APCI(a).IsGroupCommand(), a < 3; g != w {
			bad("APCI.IsGroupCommand", a, g, w)
		}
	}
	r.DistinctAdd(6 * 256)
	// flag constants against the specification's bit positions
	consts := []struct {
		name string
		got  uint8
		want uint8
	}{
		{"Control1StdFrame", uint8(cemi.Control1StdFrame), 0x80}, {"Control1NoRepeat", uint8(cemi.Control1NoRepeat), 0x20},
		{"Control1NoSysBroadcast", uint8(cemi.Control1NoSysBroadcast), 0x10}, {"Control1WantAck", uint8(cemi.Control1WantAck), 0x02},
		{"Control1HasError", uint8(cemi.Control1HasError), 0x01}, {"Control2GroupAddr", uint8(cemi.Control2GroupAddr), 0x80},
		{"Control2LTEFrame", uint8(cemi.Control2LTEFrame), 0x04},
		{"LDataReqCode", uint8(cemi.LDataReqCode), 0x11}, {"LDataIndCode", uint8(cemi.LDataIndCode), 0x29}, {"LDataConCode", uint8(cemi.LDataConCode), 0x2e},
		{"PrioSystem", uint8(cemi.PrioSystem), 0}, {"PrioNormal", uint8(cemi.PrioNormal), 1}, {"PrioUrgent", uint8(cemi.PrioUrgent), 2}, {"PrioLow", uint8(cemi.PrioLow), 3},
	}
	for i, c := range consts {
		r.Eval(1)
		if c.got != c.want {
			bad(c.name, i, c.got, c.want)
		}
	}
	r.DistinctAdd(int64(len(consts)))
}

func run(rr *mon.Run) {
	r = rr
	r.Rule("exhaustive: all 2^16 (control1, control2) pairs x 3 L_Data codes; all 16 APCI x 16 sequence x numbered x {data, control} x 3 codes; payload lengths 1..254 and info lengths 0..255 (each length, both with corner and random neighbours); corner x corner addresses; helpers over 0..255; plus seeded random frames. Distinct = enumerated without repetition (random part: hash set of encodings); every case is non-trivial (a different field combination)")
	rng := rand.New(rand.NewSource(r.Seed()*131 + 5))
	base := func(code uint8) *spec.Cemi {
		return &spec.Cemi{Code: code, Ctrl1: 0xbc, Ctrl2: 0xe0, Src: 0x1203, Dst: 0x0a07, TPDU: spec.TPDU{Cmd: 2, Data: []byte{1}}}
	}
	// 1. control octets
	n := int64(0)
	for _, code := range ldataCodes {
		for c1 := 0; c1 < 256; c1++ {
			for c2 := 0; c2 < 256; c2++ {
				c := base(code)
				c.Ctrl1, c.Ctrl2 = uint8(c1), uint8(c2)
				if (c1^c2)&1 == 0 {
					c.TPDU = spec.TPDU{Control: true, Numbered: true, Seq: uint8(c1 & 15), Cmd: uint8(c2 & 3)}
				}
				checkFrame(c, "control-octets")
				n++
			}
		}
	}
	r.Observe("control_octet_pairs_x_codes", n)
	r.DistinctAdd(n)
	// 2. TPCI/APCI product
	n = 0
	for _, code := range ldataCodes {
		for apci := 0; apci < 16; apci++ {
			for seq := 0; seq < 16; seq++ {
				for numbered := 0; numbered < 2; numbered++ {
					for ctl := 0; ctl < 2; ctl++ {
						c := base(code)
						t := spec.TPDU{Control: ctl == 1, Numbered: numbered == 1}
						if t.Numbered {
							t.Seq = uint8(seq)
						} else if seq != 0 {
							continue // sequence bits of an unnumbered unit are not carried
						}
						if t.Control {
							if apci > 3 {
								continue
							}
							t.Cmd = uint8(apci)
						} else {
							t.Cmd = uint8(apci)
							t.Data = []byte{uint8(seq*4+apci) & 0x3f, byte(seq)}
							if seq%5 == 4 {
								t.Data = []byte{uint8(seq*4+apci) & 0x3f}
							}
						}
						c.TPDU = t
						checkFrame(c, "tpci-apci")
						n++
					}
				}
			}
		}
	}
	r.Observe("tpci_apci_combinations", n)
	r.DistinctAdd(n)
	// 2b. first data octet with bits 7..6 set: only its low six bits are carried,
	// the application control code must not be disturbed (encode only: the
	// decoded value is the masked one)
	n = 0
	for apci := 0; apci < 16; apci++ {
		for fb := 0; fb < 256; fb++ {
			r.Eval(1)
			app := &cemi.AppData{Command: cemi.APCI(apci), Data: []byte{byte(fb), 0x5a}}
			ld := &cemi.LDataInd{LData: cemi.LData{Control1: 0xbc, Control2: 0xe0, Source: 0x1203, Destination: 0x0a07, Data: app}}
			want := spec.EncodeCemi(nil, &spec.Cemi{Code: spec.McLDataInd, Ctrl1: 0xbc, Ctrl2: 0xe0, Src: 0x1203, Dst: 0x0a07, TPDU: spec.TPDU{Cmd: uint8(apci), Data: []byte{byte(fb), 0x5a}}})
			var got []byte
			if p := mon.Guard(func() { got = make([]byte, cemi.Size(ld)); cemi.Pack(got, ld) }); p != "" {
				r.Violate("encode.panic", map[string]string{"stratum": "first-octet-high-bits"}, nil, "cemi.Pack panicked: %s", p)
				continue
			}
			if string(got) != string(want) {
				r.Violate("encode.layout", map[string]string{"stratum": "first-octet-high-bits"}, map[string]interface{}{"apci": apci, "first_data_octet": fb, "library": hex.EncodeToString(got), "layout": hex.EncodeToString(want)},
					"APCI %d with first data octet %#02x: library bytes %x, layout %x (only the low six bits of the first data octet share the octet with the APCI)", apci, fb, got, want)
			}
			n++
		}
	}
	r.DistinctAdd(n)
	r.Observe("first_octet_high_bit_cases", n)
	// 2c. empty application data (a group read): one zero data octet shares the
	// octet with the APCI, whatever the buffer held before (encode only)
	n = 0
	for apci := 0; apci < 16; apci++ {
		for seq := 0; seq < 17; seq++ {
			for fill := 0; fill < 3; fill++ {
				r.Eval(1)
				app := &cemi.AppData{Command: cemi.APCI(apci), Numbered: seq > 0, SeqNumber: uint8(seq) & 15}
				if fill == 2 {
					app.Data = []byte{}
				}
				ld := &cemi.LDataReq{LData: cemi.LData{Control1: 0xbc, Control2: 0xe0, Source: 0x1203, Destination: 0x0a07, Data: app}}
				want := spec.EncodeCemi(nil, &spec.Cemi{Code: spec.McLDataReq, Ctrl1: 0xbc, Ctrl2: 0xe0, Src: 0x1203, Dst: 0x0a07,
					TPDU: spec.TPDU{Cmd: uint8(apci), Numbered: seq > 0, Seq: uint8(seq) & 15}})
				var got []byte
				if p := mon.Guard(func() {
					got = make([]byte, cemi.Size(ld))
					for i := range got {
						got[i] = []byte{0x00, 0xff, 0x2a}[fill]
					}
					cemi.Pack(got, ld)
				}); p != "" {
					r.Violate("encode.panic", map[string]string{"stratum": "empty-data"}, nil, "cemi.Pack panicked on empty application data: %s", p)
					continue
				}
				if string(got) != string(want) {
					r.Violate("encode.layout", map[string]string{"stratum": "empty-data"}, map[string]interface{}{"apci": apci, "library": hex.EncodeToString(got), "layout": hex.EncodeToString(want), "buffer_prefill": fill},
						"APCI %d with empty data into a buffer pre-filled with %#02x: library bytes %x, layout %x", apci, []byte{0x00, 0xff, 0x2a}[fill], got, want)
				}
				n++
			}
		}
	}
	r.DistinctAdd(n)
	r.Observe("empty_data_cases", n)
	// 3. payload and info lengths
	n = 0
	for _, code := range ldataCodes {
		for l := 1; l <= 254; l++ {
			for rep := 0; rep < 3; rep++ {
				c := base(code)
				c.TPDU.Cmd = uint8(rng.Intn(16))
				c.TPDU.Data = gen.Bytes(rng, l)
				c.TPDU.Data[0] &= 0x3f
				if rep == 1 {
					c.TPDU.Data[0] = 0x3f
				}
				checkFrame(c, "payload-length")
				n++
			}
		}
		for l := 0; l <= 255; l++ {
			for rep := 0; rep < 3; rep++ {
				c := base(code)
				c.Info = gen.Bytes(rng, l)
				if rep == 2 {
					c.TPDU = spec.TPDU{Control: true, Cmd: uint8(l & 3)}
				}
				checkFrame(c, "info-length")
				n++
			}
		}
	}
	r.Observe("length_cases", n)
	r.DistinctAdd(n)
	// 4. addresses
	corners := []uint16{0, 1, 0xff, 0x100, 0x7ff, 0x800, 0x1000, 0x7fff, 0x8000, 0xfffe, 0xffff, 0x1234, 0xfe01, 0x01fe}
	n = 0
	for _, code := range ldataCodes {
		for _, s := range corners {
			for _, d := range corners {
				c := base(code)
				c.Src, c.Dst = s, d
				checkFrame(c, "addresses")
				n++
			}
		}
	}
	r.DistinctAdd(n)
	// 5. random frames
	nr := r.Pick(60000, 3000000)
	for i := 0; i < nr; i++ {
		c := gen.LData(rng, ldataCodes[i%3])
		r.DistinctBytes("r", spec.EncodeCemi(nil, c))
		checkFrame(c, "random")
	}
	r.Observe("random_frames", nr)
	// 6. helpers
	helpers()
	r.Exhaustive(true)
	r.Assume("internal/spec/frames.go (EncodeCemi, EncodeTPDU, ParseLData) is a faithful transcription of the cEMI L_Data layout")
}
