// C18 — addresses survive formatting and parsing; malformed text is rejected.
// Oracle: exhaustive round trip, an independently written acceptance
// predicate, closed-form constructors.
package main

import (
	"fmt"
	"math/big"
	"regexp"
	"strings"

	"github.com/vapourismo/knx-go/knx/cemi"

	"verif/internal/mon"
)

var numRe = regexp.MustCompile(`^[+-]?[0-9]+$`)

// refParse is the reference: (value, accepted).
func refParse(group bool, s string) (uint16, bool) {
	sep := "."
	if group {
		sep = "/"
	}
	parts := strings.Split(s, sep)
	if len(parts) < 1 || len(parts) > 3 {
		return 0, false
	}
	nums := make([]int64, len(parts))
	for i, p := range parts {
		if !numRe.MatchString(p) {
			return 0, false
		}
		b, ok := new(big.Int).SetString(p, 10)
		if !ok || !b.IsInt64() {
			return 0, false
		}
		nums[i] = b.Int64()
	}
	in := func(v, lo, hi int64) bool { return v >= lo && v <= hi }
	switch len(nums) {
	case 3:
		if group {
			if !in(nums[0], 0, 31) || !in(nums[1], 0, 7) || !in(nums[2], 0, 255) {
				return 0, false
			}
			v := uint16(nums[0])<<11 | uint16(nums[1])<<8 | uint16(nums[2])
			return v, v != 0
		}
		if !in(nums[0], 0, 15) || !in(nums[1], 0, 15) || !in(nums[2], 0, 255) {
			return 0, false
		}
		v := uint16(nums[0])<<12 | uint16(nums[1])<<8 | uint16(nums[2])
		return v, v != 0
	case 2:
		if group {
			if !in(nums[0], 0, 31) || !in(nums[1], 0, 2047) {
				return 0, false
			}
			v := uint16(nums[0])<<11 | uint16(nums[1])
			return v, v != 0
		}
		if !in(nums[0], 0, 255) || !in(nums[1], 0, 255) {
			return 0, false
		}
		v := uint16(nums[0])<<8 | uint16(nums[1])
		return v, v != 0
	default:
		if !in(nums[0], 1, 65535) {
			return 0, false
		}
		return uint16(nums[0]), true
	}
}

func libParse(group bool, s string) (v uint16, ok bool, pan string) {
	pan = mon.Guard(func() {
		if group {
			a, err := cemi.NewGroupAddrString(s)
			v, ok = uint16(a), err == nil
		} else {
			a, err := cemi.NewIndividualAddrString(s)
			v, ok = uint16(a), err == nil
		}
	})
	return
}

func main() {
	mon.Main("C18", "exploration", mon.Options{}, run)
}

func run(r *mon.Run) {
	r.Rule("exhaustive: all 65535 non-zero addresses x 2 kinds round trip; all component triples/pairs/raw values over documented ranges widened by 3 on both sides (negatives included) in plain, zero-padded and signed spelling; grammar mutations of valid strings; all 2^24 constructor triples/pairs. Distinct = distinct (kind, input string) / (constructor, argument tuple), enumerated without repetition (strings deduplicated in a hash set); non-trivial = every case (each exercises a different value or string)")
	check := func(group bool, s string) {
		r.Eval(1)
		kind := "individual"
		if group {
			kind = "group"
		}
		r.DistinctStr(kind + "|" + s)
		wv, wok := refParse(group, s)
		gv, gok, pan := libParse(group, s)
		c := map[string]interface{}{"kind": kind, "input": s}
		if pan != "" {
			r.Violate("parse.panic", map[string]string{"kind": kind}, c, "parsing %q as %s address panicked: %s", s, kind, pan)
			return
		}
		if gok != wok {
			r.Violate("parse.acceptance", map[string]string{"kind": kind}, c, "%s address %q: library accepted=%v, documented grammar says accepted=%v", kind, s, gok, wok)
			return
		}
		if gok && gv != wv {
			r.Violate("parse.value", map[string]string{"kind": kind}, c, "%s address %q parsed to %#04x, expected %#04x", kind, s, gv, wv)
		}
		if r.WantSample() && len(s) > 4 {
			r.Sample(map[string]interface{}{"kind": kind, "input": s, "accepted": gok, "value": gv})
		}
	}

	// 1. round trip, exhaustive
	for a := 1; a <= 65535; a++ {
		for _, group := range []bool{true, false} {
			r.Eval(1)
			var s string
			if group {
				s = cemi.GroupAddr(a).String()
			} else {
				s = cemi.IndividualAddr(a).String()
			}
			gv, gok, pan := libParse(group, s)
			if pan != "" || !gok || gv != uint16(a) {
				r.Violate("roundtrip", map[string]string{"group": fmt.Sprint(group)}, map[string]interface{}{"addr": a, "text": s},
					"address %#04x (group=%v) formats as %q which parses to (%#04x, ok=%v, panic=%q)", a, group, s, gv, gok, pan)
			}
			// the formatted text must also be the documented 3-level form
			wv, wok := refParse(group, s)
			if !wok || wv != uint16(a) {
				r.Violate("format", map[string]string{"group": fmt.Sprint(group)}, map[string]interface{}{"addr": a, "text": s},
					"address %#04x (group=%v) formats as %q, which is not its documented three-level form", a, group, s)
			}
		}
	}
	r.DistinctAdd(2 * 65535)
	r.Observe("roundtrip_addresses", 2*65535)

	// 2. acceptance grids
	spell := func(v int, style int) string {
		switch style {
		case 1:
			if v < 0 {
				return fmt.Sprintf("-%04d", -v)
			}
			return fmt.Sprintf("%04d", v)
		case 2:
			if v >= 0 {
				return fmt.Sprintf("+%d", v)
			}
		}
		return fmt.Sprintf("%d", v)
	}
	grid := func(group bool, max []int) {
		sep := "."
		if group {
			sep = "/"
		}
		var rec func(i int, acc []int)
		rec = func(i int, acc []int) {
			if i == len(max) {
				parts := make([]string, len(acc))
				for j, v := range acc {
					parts[j] = spell(v, 0)
				}
				check(group, strings.Join(parts, sep))
				// alternative spellings on a deterministic subset
				h := 0
				for _, v := range acc {
					h = h*31 + v + 7
				}
				if h%17 == 0 {
					for st := 1; st <= 2; st++ {
						for j, v := range acc {
							parts[j] = spell(v, st)
						}
						check(group, strings.Join(parts, sep))
					}
				}
				return
			}
			for v := -3; v <= max[i]+3; v++ {
				rec(i+1, append(acc, v))
			}
		}
		rec(0, nil)
	}
	grid(true, []int{31, 7, 255})
	grid(true, []int{31, 2047})
	grid(true, []int{65535})
	grid(false, []int{15, 15, 255})
	grid(false, []int{255, 255})
	grid(false, []int{65535})

	// 3. grammar mutations
	bases := []string{"1/2/3", "31/7/255", "0/0/1", "1/2047", "31/0", "1", "65535", "0/0/0", "0/0", "0", "1.1.1", "15.15.255", "255.255", "0.0.0", "0.1"}
	muts := []func(string) string{
		func(s string) string { return "" },
		func(s string) string { return " " + s },
		func(s string) string { return s + " " },
		func(s string) string { return s + "/" },
		func(s string) string { return s + "." },
		func(s string) string { return "/" + s },
		func(s string) string { return "." + s },
		func(s string) string { return strings.ReplaceAll(s, "/", "//") },
		func(s string) string { return strings.ReplaceAll(s, ".", "..") },
		func(s string) string { return strings.ReplaceAll(strings.ReplaceAll(s, "/", "#"), ".", "/") },
		func(s string) string { return strings.ReplaceAll(s, "/", ".") },
		func(s string) string { return strings.ReplaceAll(s, "/", "-") },
		func(s string) string { return strings.ReplaceAll(s, "/", ",") },
		func(s string) string { return s + "/1" },
		func(s string) string { return s + ".1" },
		func(s string) string { return s + "/1/1" },
		func(s string) string { return s + ".1.1" },
		func(s string) string { return s + "/1/1/1" },
		func(s string) string { return "0x" + s },
		func(s string) string { return strings.ReplaceAll(s, "1", "0x1") },
		func(s string) string { return strings.ReplaceAll(s, "1", "1_0") },
		func(s string) string { return strings.ReplaceAll(s, "1", "１") }, // full-width digit
		func(s string) string { return strings.ReplaceAll(s, "1", "1e0") },
		func(s string) string { return strings.ReplaceAll(s, "1", "1.0") },
		func(s string) string { return strings.ReplaceAll(s, "1", "a") },
		func(s string) string { return strings.ReplaceAll(s, "1", "99999999999999999999999") },
		func(s string) string { return strings.ReplaceAll(s, "1", "-99999999999999999999999") },
		func(s string) string { return strings.ReplaceAll(s, "1", "9223372036854775808") },
		func(s string) string { return strings.ReplaceAll(s, "1", "4294967297") },   // 2^32+1
		func(s string) string { return strings.ReplaceAll(s, "1", "18446744073709551617") }, // 2^64+1
		func(s string) string { return strings.ReplaceAll(s, "1", "65537") },
		func(s string) string { return strings.ReplaceAll(s, "1", "257") },
		func(s string) string { return strings.ReplaceAll(s, "1", "+1") },
		func(s string) string { return strings.ReplaceAll(s, "1", "-1") },
		func(s string) string { return strings.ReplaceAll(s, "1", "+-1") },
		func(s string) string { return strings.ReplaceAll(s, "1", "--1") },
		func(s string) string { return strings.ReplaceAll(s, "1", "1 ") },
		func(s string) string { return strings.ReplaceAll(s, "1", "\t1") },
		func(s string) string { return strings.ReplaceAll(s, "0", "-0") },
		func(s string) string { return strings.ReplaceAll(s, "0", "+0") },
		func(s string) string { return strings.ReplaceAll(s, "0", "00000000000000000000000000") },
		func(s string) string { return s + "\x00" },
		func(s string) string { return s + "\n" },
		func(s string) string { return strings.ToUpper(s) + "A" },
		func(s string) string { return "+" },
		func(s string) string { return "-" },
		func(s string) string { return "/" },
		func(s string) string { return "." },
		func(s string) string { return "//" },
		func(s string) string { return ".." },
		func(s string) string { return "1/" },
		func(s string) string { return "/1" },
		func(s string) string { return "1//1" },
	}
	nm := 0
	for _, b := range bases {
		for _, m := range muts {
			s := m(b)
			check(true, s)
			check(false, s)
			nm += 2
			for _, m2 := range muts[:20] {
				s2 := m2(s)
				check(true, s2)
				check(false, s2)
				nm += 2
			}
		}
	}
	// random strings over a small alphabet
	alpha := []rune("0123456789/.+- ０x_")
	nrand := r.Pick(200000, 3000000)
	for i := 0; i < nrand; i++ {
		n := 1 + r.Rand.Intn(9)
		rs := make([]rune, n)
		for j := range rs {
			// bias toward digits and separators
			k := r.Rand.Intn(len(alpha) + 14)
			if k >= len(alpha) {
				k = (k - len(alpha)) % 12
			}
			rs[j] = alpha[k]
		}
		check(r.Rand.Intn(2) == 0, string(rs))
	}
	r.Observe("grammar_mutation_strings", nm)
	r.Observe("random_strings", nrand)

	// 4. constructors, exhaustive
	bad := 0
	for a := 0; a < 256 && bad < 5; a++ {
		for b := 0; b < 256; b++ {
			for c := 0; c < 256; c++ {
				g := cemi.NewGroupAddr3(uint8(a), uint8(b), uint8(c))
				if uint16(g) != uint16(a&0x1f)<<11|uint16(b&7)<<8|uint16(c) {
					bad++
					r.Violate("ctor.group3", nil, []int{a, b, c}, "NewGroupAddr3(%d,%d,%d) = %#04x", a, b, c, uint16(g))
				}
				i := cemi.NewIndividualAddr3(uint8(a), uint8(b), uint8(c))
				if uint16(i) != uint16(a&0xf)<<12|uint16(b&0xf)<<8|uint16(c) {
					bad++
					r.Violate("ctor.indiv3", nil, []int{a, b, c}, "NewIndividualAddr3(%d,%d,%d) = %#04x", a, b, c, uint16(i))
				}
			}
			i2 := cemi.NewIndividualAddr2(uint8(a), uint8(b))
			if uint16(i2) != uint16(a)<<8|uint16(b) {
				bad++
				r.Violate("ctor.indiv2", nil, []int{a, b}, "NewIndividualAddr2(%d,%d) = %#04x", a, b, uint16(i2))
			}
		}
		for b := 0; b < 65536; b++ {
			g2 := cemi.NewGroupAddr2(uint8(a), uint16(b))
			if uint16(g2) != uint16(a&0x1f)<<11|uint16(b&0x7ff) {
				bad++
				r.Violate("ctor.group2", nil, []int{a, b}, "NewGroupAddr2(%d,%d) = %#04x", a, b, uint16(g2))
			}
		}
	}
	n := int64(2*(1<<24) + (1 << 16) + (1 << 24))
	r.Eval(n)
	r.DistinctAdd(n)
	r.Observe("constructor_argument_tuples", n)
	r.Exhaustive(true)
	r.Assume("strconv.Atoi semantics (optional sign, decimal digits, int range) are the documented %d form")
}
