// C16 — sockets deliver each well-formed frame once, in order, however the
// stream is cut; every Send emits exactly one complete frame; receivers end
// when the socket closes; the connect request advertises the right endpoint.
// Real knxnet sockets on loopback (TCP, UDP, multicast), built with -race.
package main

import (
	"bytes"
	"encoding/hex"
	"fmt"
	"math/rand"
	"net"
	"os"
	"strings"
	"sync"
	"time"

	"github.com/vapourismo/knx-go/knx"
	"github.com/vapourismo/knx-go/knx/knxnet"

	"verif/internal/gateway"
	"verif/internal/gen"
	"verif/internal/libx"
	"verif/internal/mon"
	"verif/internal/spec"
)

func main() {
	mon.Main("C16", "exploration", mon.Options{Race: true, QuickTimeout: 25 * time.Minute, ThoroughTimeout: 150 * time.Minute,
		RaceFilter: func(rep mon.RaceReport) string {
			if !rep.InvolvesLibrary() {
				return "race.harness"
			}
			return "race.library"
		}}, run)
}

var r *mon.Run

var nStreams, nFramesIn, nCuts, nDatagramsIn, nSends, nLifecycles, nConnReq int64

// expect decodes b strictly; returns canonical rendering.
func expect(b []byte) (string, bool) {
	b1 := append([]byte(nil), b...)
	var s knxnet.Service
	var err error
	if p := mon.Guard(func() { _, err = knxnet.Unpack(b1, &s) }); p != "" || err != nil || s == nil {
		return "", false
	}
	return libx.Dump(s), true
}

// frame draws a well-formed frame (accepted by the decoder) of a random service.
func frame(rng *rand.Rand, maxLen int) ([]byte, string) {
	for {
		svc := spec.Services[rng.Intn(len(spec.Services))]
		if rng.Intn(12) == 0 {
			svc = 0x0999
		}
		f := gen.Frame(rng, svc, -1)
		b := f.Encode()
		if len(b) > maxLen {
			continue
		}
		if d, ok := expect(b); ok {
			return b, d
		}
	}
}

func bigFrame(rng *rand.Rand) ([]byte, string) {
	f := gen.Frame(rng, spec.SvcTunnelReq, 1)
	f.Cemi.Info = gen.Bytes(rng, 255)
	f.Cemi.TPDU = spec.TPDU{Cmd: 2, Data: gen.Bytes(rng, 254)}
	f.Cemi.TPDU.Data[0] &= 0x3f
	b := f.Encode()
	d, _ := expect(b)
	return b, d
}

func tcpPair() (*knxnet.TunnelSocket, net.Conn, func(), error) {
	ln, err := net.Listen("tcp4", "127.0.0.1:0")
	if err != nil {
		return nil, nil, nil, err
	}
	sock, err := knxnet.DialTunnelTCP(ln.Addr().String())
	if err != nil {
		ln.Close()
		return nil, nil, nil, err
	}
	conn, err := ln.Accept()
	if err != nil {
		ln.Close()
		sock.Close()
		return nil, nil, nil, err
	}
	conn.(*net.TCPConn).SetNoDelay(true)
	return sock, conn, func() { conn.Close(); sock.Close(); ln.Close() }, nil
}

func readN(in <-chan knxnet.Service, n int, bound time.Duration) (got []string, closed bool) {
	t := time.NewTimer(bound)
	defer t.Stop()
	for len(got) < n {
		select {
		case s, ok := <-in:
			if !ok {
				return got, true
			}
			got = append(got, libx.Dump(s))
		case <-t.C:
			return got, false
		}
	}
	return got, false
}

func sameSeq(a, b []string) bool {
	if len(a) != len(b) {
		return false
	}
	for i := range a {
		if a[i] != b[i] {
			return false
		}
	}
	return true
}

func short(ss []string) []string {
	var out []string
	for i, s := range ss {
		if i > 8 {
			break
		}
		if len(s) > 120 {
			s = s[:120] + "…"
		}
		out = append(out, s)
	}
	return out
}

// tcpStreamCase writes frames over one connection in the given chunks and
// compares what surfaces.
func tcpStreamCase(sock *knxnet.TunnelSocket, conn net.Conn, frames [][]byte, dumps []string, chunks []int, how string) bool {
	nStreams++
	r.Eval(1)
	var stream []byte
	for _, f := range frames {
		stream = append(stream, f...)
	}
	go func() {
		off := 0
		for _, c := range chunks {
			if off >= len(stream) {
				break
			}
			end := off + c
			if end > len(stream) {
				end = len(stream)
			}
			conn.Write(stream[off:end])
			off = end
			if len(chunks) < 600 {
				time.Sleep(150 * time.Microsecond)
			}
		}
		if off < len(stream) {
			conn.Write(stream[off:])
		}
	}()
	got, closed := readN(sock.Inbound(), len(frames), 10*time.Second)
	nFramesIn += int64(len(got))
	if closed || !sameSeq(got, dumps) {
		r.Violate("tcp.inbound-sequence", map[string]string{"how": how}, map[string]interface{}{"segmentation": how, "chunks": clipInts(chunks), "stream": hex.EncodeToString(clipB(stream)), "expected": short(dumps), "got": short(got), "inbound_closed": closed},
			"TCP stream of %d frames (%d bytes) written as %s: Inbound delivered %d frames (closed=%v), the sequence differs from what the peer wrote", len(frames), len(stream), how, len(got), closed)
		return false
	}
	// nothing extra
	select {
	case s, ok := <-sock.Inbound():
		if ok {
			r.Violate("tcp.inbound-extra", map[string]string{"how": how}, map[string]interface{}{"segmentation": how, "extra": libx.Dump(s)}, "TCP: an extra frame surfaced after the %d frames written", len(frames))
			return false
		}
	case <-time.After(300 * time.Microsecond):
	}
	r.DistinctStr("tcp|" + how + "|" + fmt.Sprint(len(stream)) + "|" + fmt.Sprint(clipInts(chunks)))
	if r.WantSample() && nStreams%37 == 5 {
		r.Sample(map[string]interface{}{"kind": "tcp-inbound", "segmentation": how, "frames": len(frames), "stream_bytes": len(stream), "chunks": clipInts(chunks), "stream": hex.EncodeToString(clipB(stream))})
	}
	return true
}

func clipInts(a []int) []int {
	if len(a) > 40 {
		return a[:40]
	}
	return a
}

func clipB(b []byte) []byte {
	if len(b) > 300 {
		return b[:300]
	}
	return b
}

func tcpInbound(rng *rand.Rand) {
	sock, conn, done, err := tcpPair()
	if err != nil {
		r.Inconclusive("tcp: " + err.Error())
		return
	}
	defer done()
	r.Crumb("C16 tcp every cut")
	// every cut position of 2- and 3-frame streams
	for rep := 0; rep < r.Pick(3, 40); rep++ {
		k := 2 + rep%2
		var frames [][]byte
		var dumps []string
		total := 0
		for i := 0; i < k; i++ {
			f, d := frame(rng, 60)
			frames, dumps = append(frames, f), append(dumps, d)
			total += len(f)
		}
		for cut := 1; cut < total; cut++ {
			nCuts++
			if !tcpStreamCase(sock, conn, frames, dumps, []int{cut, total - cut}, fmt.Sprintf("cut@%d", cut)) {
				return
			}
		}
		// two cuts
		for i := 0; i < 30; i++ {
			a := 1 + rng.Intn(total-2)
			b := 1 + rng.Intn(total-a-1+1)
			if !tcpStreamCase(sock, conn, frames, dumps, []int{a, b, total}, fmt.Sprintf("cuts@%d,%d", a, a+b)) {
				return
			}
		}
	}
	r.Crumb("C16 tcp dribble / coalesce")
	for rep := 0; rep < r.Pick(12, 300); rep++ {
		n := 1 + rng.Intn(50)
		var frames [][]byte
		var dumps []string
		total := 0
		for i := 0; i < n; i++ {
			var f []byte
			var d string
			if rng.Intn(15) == 0 {
				f, d = bigFrame(rng)
			} else {
				f, d = frame(rng, 1024)
			}
			frames, dumps = append(frames, f), append(dumps, d)
			total += len(f)
		}
		var chunks []int
		how := ""
		switch rep % 4 {
		case 0:
			how = "1-byte-dribble"
			if total > 3000 {
				frames, dumps = frames[:3], dumps[:3]
				total = len(frames[0]) + len(frames[1]) + len(frames[2])
			}
			for i := 0; i < total; i++ {
				chunks = append(chunks, 1)
			}
		case 1:
			how = "single-write"
			chunks = []int{total}
		default:
			how = "random-chunks"
			for left := total; left > 0; {
				c := 1 + rng.Intn(200)
				if rng.Intn(3) == 0 {
					c = 1 + rng.Intn(7)
				}
				chunks = append(chunks, c)
				left -= c
			}
		}
		if !tcpStreamCase(sock, conn, frames, dumps, chunks, how) {
			return
		}
	}
}

func udpInbound(rng *rand.Rand) {
	pc, err := net.ListenUDP("udp4", &net.UDPAddr{IP: net.IPv4(127, 0, 0, 1)})
	if err != nil {
		r.Inconclusive("udp: " + err.Error())
		return
	}
	defer pc.Close()
	sock, err := knxnet.DialTunnelUDP(pc.LocalAddr().String())
	if err != nil {
		r.Inconclusive("udp: " + err.Error())
		return
	}
	defer sock.Close()
	sock.Send(&knxnet.ConnStateRes{})
	buf := make([]byte, 2048)
	pc.SetReadDeadline(time.Now().Add(5 * time.Second))
	_, client, err := pc.ReadFromUDP(buf)
	if err != nil {
		r.Inconclusive("udp: no hello")
		return
	}
	// a foreign sender whose datagrams must be ignored (origin validation)
	foreign, _ := net.DialUDP("udp4", nil, client)
	defer foreign.Close()
	r.Crumb("C16 udp inbound")
	for rep := 0; rep < r.Pick(150, 4000); rep++ {
		n := 1 + rng.Intn(16)
		var dumps []string
		for i := 0; i < n; i++ {
			var f []byte
			var d string
			if rng.Intn(10) == 0 {
				f, d = bigFrame(rng)
			} else {
				f, d = frame(rng, 1024)
			}
			if rng.Intn(6) == 0 {
				ff, _ := frame(rng, 200)
				foreign.Write(ff)
			}
			pc.WriteToUDP(f, client)
			dumps = append(dumps, d)
		}
		nDatagramsIn += int64(n)
		r.Eval(1)
		got, closed := readN(sock.Inbound(), n, 5*time.Second)
		if closed || !sameSeq(got, dumps) {
			r.Violate("udp.inbound-sequence", nil, map[string]interface{}{"expected": short(dumps), "got": short(got)}, "UDP window of %d datagrams: Inbound delivered %d frames (closed=%v), not the sequence the peer sent (a datagram from a foreign endpoint may have been let through)", n, len(got), closed)
			return
		}
		r.DistinctStr("udp|" + fmt.Sprint(dumps))
	}
}

func routerInbound(rng *rand.Rand) {
	pid := os.Getpid()
	group := fmt.Sprintf("239.%d.%d.%d:%d", 60+pid%100, (pid/100)%250, 1+rng.Intn(250), 20000+rng.Intn(20000))
	sock, err := knxnet.ListenRouter(group)
	if err != nil {
		r.Inconclusive("router: " + err.Error())
		return
	}
	defer sock.Close()
	gaddr, _ := net.ResolveUDPAddr("udp4", group)
	peer, err := net.DialUDP("udp4", nil, gaddr)
	if err != nil {
		r.Inconclusive("router: " + err.Error())
		return
	}
	defer peer.Close()
	probe, pd := frame(rng, 40)
	peer.Write(probe)
	if got, _ := readN(sock.Inbound(), 1, 2*time.Second); len(got) != 1 || got[0] != pd {
		r.Inconclusive("router: multicast probe did not arrive (no multicast path)")
		return
	}
	r.Crumb("C16 router inbound")
	for rep := 0; rep < r.Pick(100, 3000); rep++ {
		n := 1 + rng.Intn(16)
		var dumps []string
		for i := 0; i < n; i++ {
			f, d := frame(rng, 1024)
			peer.Write(f)
			dumps = append(dumps, d)
		}
		nDatagramsIn += int64(n)
		r.Eval(1)
		got, closed := readN(sock.Inbound(), n, 5*time.Second)
		if closed || !sameSeq(got, dumps) {
			r.Violate("router.inbound-sequence", nil, map[string]interface{}{"expected": short(dumps), "got": short(got)}, "multicast window of %d datagrams: Inbound delivered %d frames (closed=%v), not the sequence sent", n, len(got), closed)
			return
		}
		r.DistinctStr("rt|" + fmt.Sprint(dumps))
	}
}

// outbound: G goroutines send numbered frames; the peer must see exactly
// those frames, each complete, per-sender order preserved.
func outbound(rng *rand.Rand, tcp bool, G, per int) {
	kind := "udp"
	if tcp {
		kind = "tcp"
	}
	r.Crumb("C16 outbound %s G=%d", kind, G)
	var sock *knxnet.TunnelSocket
	var conn net.Conn
	var pc *net.UDPConn
	if tcp {
		var done func()
		var err error
		sock, conn, done, err = tcpPair()
		if err != nil {
			r.Inconclusive("tcp: " + err.Error())
			return
		}
		defer done()
	} else {
		var err error
		pc, err = net.ListenUDP("udp4", &net.UDPAddr{IP: net.IPv4(127, 0, 0, 1)})
		if err != nil {
			return
		}
		pc.SetReadBuffer(4 << 20)
		defer pc.Close()
		sock, err = knxnet.DialTunnelUDP(pc.LocalAddr().String())
		if err != nil {
			return
		}
		defer sock.Close()
	}
	total := G * per
	// receiver
	type rx struct {
		frames [][]byte
		err    string
	}
	resCh := make(chan rx, 1)
	go func() {
		var out rx
		if tcp {
			conn.SetReadDeadline(time.Now().Add(30 * time.Second))
			hdr := make([]byte, 6)
			for len(out.frames) < total {
				if _, err := readFull(conn, hdr); err != nil {
					out.err = "read header: " + err.Error()
					break
				}
				if hdr[0] != 6 || hdr[1] != 0x10 {
					out.err = fmt.Sprintf("bad header %x after %d frames: the stream is not a clean concatenation of frames", hdr, len(out.frames))
					break
				}
				l := int(hdr[4])<<8 | int(hdr[5])
				if l < 6 {
					out.err = fmt.Sprintf("bad total length %d", l)
					break
				}
				body := make([]byte, l-6)
				if _, err := readFull(conn, body); err != nil {
					out.err = "read body: " + err.Error()
					break
				}
				out.frames = append(out.frames, append(append([]byte(nil), hdr...), body...))
			}
		} else {
			buf := make([]byte, 4096)
			pc.SetReadDeadline(time.Now().Add(30 * time.Second))
			for len(out.frames) < total {
				n, _, err := pc.ReadFromUDP(buf)
				if err != nil {
					out.err = "read: " + err.Error()
					break
				}
				out.frames = append(out.frames, append([]byte(nil), buf[:n]...))
			}
		}
		resCh <- out
	}()
	var wg sync.WaitGroup
	want := make([][][]byte, G)
	for g := 0; g < G; g++ {
		for i := 0; i < per; i++ {
			id := uint32(g*100000 + i + 1)
			c := gateway.Telegram(spec.McLDataReq, id)
			// distinct sizes per sender
			c.Info = bytes.Repeat([]byte{byte(g + 1)}, (g*7+i)%40)
			f := &spec.Frame{Service: spec.SvcTunnelReq, Channel: uint8(g), Seq: uint8(i), Cemi: c}
			want[g] = append(want[g], f.Encode())
		}
	}
	for g := 0; g < G; g++ {
		wg.Add(1)
		go func(g int) {
			defer wg.Done()
			for i := 0; i < per; i++ {
				id := uint32(g*100000 + i + 1)
				c := gateway.Telegram(spec.McLDataReq, id)
				c.Info = bytes.Repeat([]byte{byte(g + 1)}, (g*7+i)%40)
				f := &spec.Frame{Service: spec.SvcTunnelReq, Channel: uint8(g), Seq: uint8(i), Cemi: c}
				sock.Send(libx.Service(f))
				if !tcp && i%8 == 7 {
					time.Sleep(200 * time.Microsecond) // stay below the kernel buffer
				}
			}
		}(g)
	}
	wg.Wait()
	nSends += int64(total)
	r.Eval(1)
	var got rx
	select {
	case got = <-resCh:
	case <-time.After(40 * time.Second):
		r.Violate("outbound.peer-stuck", map[string]string{"socket": kind}, nil, "%s: the peer did not receive %d frames", kind, total)
		return
	}
	attrs := map[string]string{"socket": kind}
	if got.err != "" {
		r.Violate("outbound.framing", attrs, map[string]interface{}{"senders": G, "frames_received": len(got.frames), "error": got.err}, "%s, %d concurrent senders: %s", kind, G, got.err)
		return
	}
	next := make([]int, G)
	for _, f := range got.frames {
		p := spec.Parse(f)
		g := int(p.Channel)
		if !p.OK || p.Service != spec.SvcTunnelReq || g >= G || next[g] >= per || !bytes.Equal(f, want[g][next[g]]) {
			r.Violate("outbound.frame", attrs, map[string]interface{}{"senders": G, "frame": hex.EncodeToString(clipB(f))}, "%s, %d concurrent senders: the peer received a frame that is not the next complete frame of any sender (mixed, duplicated, truncated or reordered)", kind, G)
			return
		}
		next[g]++
	}
	for g := range next {
		if next[g] != per {
			r.Violate("outbound.missing", attrs, map[string]interface{}{"sender": g, "received": next[g], "sent": per}, "%s: sender %d: %d of %d frames arrived", kind, g, next[g], per)
			return
		}
	}
	r.DistinctStr(fmt.Sprintf("out|%s|%d|%d", kind, G, per))
	if r.WantSample() {
		r.Sample(map[string]interface{}{"kind": "outbound", "socket": kind, "senders": G, "frames_per_sender": per, "frames_received": len(got.frames), "first_frame": hex.EncodeToString(clipB(got.frames[0]))})
	}
}

func readFull(c net.Conn, b []byte) (int, error) {
	n := 0
	for n < len(b) {
		m, err := c.Read(b[n:])
		n += m
		if err != nil {
			return n, err
		}
	}
	return n, nil
}

func sockGoroutines() []string {
	return mon.LibGoroutines("knxnet.serveUDPSocket", "knxnet.serveTCPSocket")
}

// lifecycle: after Close (or peer close on TCP) Inbound closes and the
// receiver goroutine ends.
func lifecycle(rng *rand.Rand, kind string, reader bool, pending bool) {
	nLifecycles++
	r.Eval(1)
	sig := fmt.Sprintf("lifecycle %s reader=%v pending-frame=%v", kind, reader, pending)
	r.Crumb("C16 %s", sig)
	attrs := map[string]string{"scenario": sig}
	if rem := mon.WaitNoLibGoroutines(3*time.Second, nil, "knxnet.serveUDPSocket", "knxnet.serveTCPSocket"); len(rem) > 0 {
		// leftovers of an earlier scenario (reported there)
		_ = rem
	}
	base := len(sockGoroutines())
	var in <-chan knxnet.Service
	var closeSock func()
	var peerSend func([]byte)
	var peerClose func()
	switch kind {
	case "tcp", "tcp-peer-closes":
		sock, conn, done, err := tcpPair()
		if err != nil {
			return
		}
		defer done()
		in, closeSock = sock.Inbound(), func() { sock.Close() }
		peerSend = func(b []byte) { conn.Write(b) }
		peerClose = func() { conn.Close() }
	case "udp":
		pc, err := net.ListenUDP("udp4", &net.UDPAddr{IP: net.IPv4(127, 0, 0, 1)})
		if err != nil {
			return
		}
		defer pc.Close()
		sock, err := knxnet.DialTunnelUDP(pc.LocalAddr().String())
		if err != nil {
			return
		}
		sock.Send(&knxnet.ConnStateRes{})
		buf := make([]byte, 100)
		pc.SetReadDeadline(time.Now().Add(3 * time.Second))
		_, cl, err := pc.ReadFromUDP(buf)
		if err != nil {
			return
		}
		in, closeSock = sock.Inbound(), func() { sock.Close() }
		peerSend = func(b []byte) { pc.WriteToUDP(b, cl) }
		peerClose = func() {}
	}
	f1, _ := frame(rng, 60)
	f2, _ := frame(rng, 60)
	readerDone := make(chan struct{})
	if reader {
		go func() {
			for range in {
			}
			close(readerDone)
		}()
	}
	peerSend(f1)
	if pending {
		peerSend(f2)
	}
	time.Sleep(2 * time.Millisecond) // the receiver now holds a frame nobody reads (if no reader)
	if kind == "tcp-peer-closes" {
		peerClose()
		if !reader {
			// nobody called Close: the pending frames have to be read before the
			// channel can close, so the application starts reading late
			time.Sleep(2 * time.Millisecond)
			reader = true
			go func() {
				for range in {
				}
				close(readerDone)
			}()
		}
	} else {
		closeSock()
	}
	// Inbound closes
	if reader {
		select {
		case <-readerDone:
		case <-time.After(3 * time.Second):
			r.Violate("lifecycle.inbound-open", attrs, nil, "[%s] Inbound was not closed within 3 s", sig)
			return
		}
	}
	rem := mon.WaitNoLibGoroutines(2*time.Second, nil, "knxnet.serveUDPSocket", "knxnet.serveTCPSocket")
	if len(rem) > base {
		class := "other"
		if !reader {
			class = "closed-with-pending-frame-and-no-reader"
		}
		r.Violate("lifecycle.receiver-alive", map[string]string{"class": class}, map[string]interface{}{"scenario": sig, "goroutines": clipS(rem)}, "[%s] the receiver goroutine is still running 2 s after the socket was closed (%s)", sig, firstLine(rem[len(rem)-1]))
		if !reader {
			// unblock it so that it does not pollute the next census
			go func() {
				for range in {
				}
			}()
			mon.WaitNoLibGoroutines(2*time.Second, nil, "knxnet.serveUDPSocket", "knxnet.serveTCPSocket")
		}
		return
	}
	r.DistinctStr(sig)
}

func firstLine(s string) string {
	for _, l := range strings.Split(s, "\n") {
		if strings.Contains(l, "knxnet.serve") {
			return strings.TrimSpace(l)
		}
	}
	return ""
}

func clipS(ss []string) []string {
	if len(ss) > 3 {
		ss = ss[:3]
	}
	for i := range ss {
		if len(ss[i]) > 900 {
			ss[i] = ss[i][:900]
		}
	}
	return ss
}

// connectRequest: the real NewTunnel over loopback; the connect request's
// endpoints must be the socket's real local endpoint or the NAT form.
func connectRequest(tcp, sendLocal, zeroTimings bool) {
	nConnReq++
	r.Eval(1)
	sig := fmt.Sprintf("connect tcp=%v send-local-address=%v default-timings=%v", tcp, sendLocal, zeroTimings)
	r.Crumb("C16 %s", sig)
	attrs := map[string]string{"scenario": sig}
	type seen struct {
		frame []byte
		from  net.Addr
	}
	got := make(chan seen, 4)
	var addr string
	var stop func()
	if tcp {
		ln, err := net.Listen("tcp4", "127.0.0.1:0")
		if err != nil {
			return
		}
		addr = ln.Addr().String()
		stop = func() { ln.Close() }
		go func() {
			c, err := ln.Accept()
			if err != nil {
				return
			}
			defer c.Close()
			hdr := make([]byte, 6)
			for {
				if _, err := readFull(c, hdr); err != nil {
					return
				}
				body := make([]byte, (int(hdr[4])<<8|int(hdr[5]))-6)
				if _, err := readFull(c, body); err != nil {
					return
				}
				f := append(append([]byte(nil), hdr...), body...)
				p := spec.Parse(f)
				if p.Service == spec.SvcConnReq {
					got <- seen{f, c.RemoteAddr()}
					c.Write((&spec.Frame{Service: spec.SvcConnRes, Channel: 5, Control: spec.HPAI{Proto: 2}}).Encode())
				}
				if p.Service == spec.SvcDiscReq {
					c.Write((&spec.Frame{Service: spec.SvcDiscRes, Channel: 5}).Encode())
				}
			}
		}()
	} else {
		pc, err := net.ListenUDP("udp4", &net.UDPAddr{IP: net.IPv4(127, 0, 0, 1)})
		if err != nil {
			return
		}
		addr = pc.LocalAddr().String()
		stop = func() { pc.Close() }
		go func() {
			buf := make([]byte, 2048)
			for {
				n, from, err := pc.ReadFromUDP(buf)
				if err != nil {
					return
				}
				f := append([]byte(nil), buf[:n]...)
				p := spec.Parse(f)
				if p.Service == spec.SvcConnReq {
					got <- seen{f, from}
					pc.WriteToUDP((&spec.Frame{Service: spec.SvcConnRes, Channel: 5, Control: spec.HPAI{Proto: 1}}).Encode(), from)
				}
				if p.Service == spec.SvcDiscReq {
					pc.WriteToUDP((&spec.Frame{Service: spec.SvcDiscRes, Channel: 5}).Encode(), from)
				}
			}
		}()
	}
	defer stop()
	tc := knx.TunnelConfig{ResendInterval: 200 * time.Millisecond, HeartbeatInterval: time.Minute, ResponseTimeout: 3 * time.Second, SendLocalAddress: sendLocal, UseTCP: tcp}
	if zeroTimings {
		// only the two options are set; the timings are left to the defaults
		tc = knx.TunnelConfig{SendLocalAddress: sendLocal, UseTCP: tcp}
	}
	t, err := knx.NewTunnel(addr, knxnet.TunnelLayerData, tc)
	if err != nil {
		r.Violate("connect.failed", attrs, nil, "[%s] NewTunnel over loopback failed: %v", sig, err)
		return
	}
	defer t.Close()
	var s seen
	select {
	case s = <-got:
	case <-time.After(3 * time.Second):
		r.Violate("connect.no-request", attrs, nil, "[%s] no connect request reached the peer", sig)
		return
	}
	p := spec.Parse(s.frame)
	proto := uint8(1)
	if tcp {
		proto = 2
	}
	want := spec.HPAI{Proto: proto}
	if sendLocal && !tcp {
		ua := s.from.(*net.UDPAddr)
		copy(want.IP[:], ua.IP.To4())
		want.Port = uint16(ua.Port)
	}
	if !p.OK || p.Control != want || p.Tunnel != want {
		r.Violate("connect.endpoint", attrs, map[string]interface{}{"frame": hex.EncodeToString(s.frame), "datagram_source": s.from.String(), "control": fmt.Sprintf("%+v", p.Control), "data": fmt.Sprintf("%+v", p.Tunnel), "expected": fmt.Sprintf("%+v", want)},
			"[%s] the connect request advertises control endpoint %+v and data endpoint %+v; expected %+v (source of the request: %s)", sig, p.Control, p.Tunnel, want, s.from)
		return
	}
	if tcp {
		// on a TCP tunnel a Send returns without waiting for an acknowledgement
		t0 := time.Now()
		errc := make(chan error, 1)
		go func() { errc <- t.Send(gateway.Req(77)) }()
		select {
		case err := <-errc:
			if err != nil || time.Since(t0) > 150*time.Millisecond {
				r.Violate("connect.tcp-send", attrs, map[string]interface{}{"scenario": sig, "error": fmt.Sprint(err), "took_ms": float64(time.Since(t0)) / 1e6}, "[%s] Send on the TCP tunnel returned %v after %v (it must not wait for an acknowledgement)", sig, err, time.Since(t0))
				return
			}
		case <-time.After(2 * time.Second):
			r.Violate("connect.tcp-send", attrs, map[string]interface{}{"scenario": sig}, "[%s] Send on the TCP tunnel is waiting for an acknowledgement (configured UseTCP is not in effect)", sig)
			return
		}
	}
	r.DistinctStr(sig)
	if r.WantSample() {
		r.Sample(map[string]interface{}{"kind": "connect-request", "scenario": sig, "frame": hex.EncodeToString(s.frame), "datagram_source": s.from.String()})
	}
}

func run(rr *mon.Run) {
	r = rr
	r.Rule("TCP inbound: every cut position (and pairs of cuts) of 2- and 3-frame streams, 1-byte dribble, single write and random chunking of 1..50 frames of every service type incl. the largest encodable frame; UDP and multicast inbound: windows of 1..16 datagrams of 8..1024 bytes with foreign-endpoint datagrams interleaved; outbound: 1..8 concurrent senders over UDP and TCP; lifecycle: Close / peer close with and without a reader and a pending frame; connect request through the real NewTunnel (UDP/TCP x SendLocalAddress). Distinct = distinct (segmentation | window | scenario) signatures")
	rng := rand.New(rand.NewSource(r.Seed()*1117 + 3))
	tcpInbound(rng)
	udpInbound(rng)
	routerInbound(rng)
	for _, g := range []int{1, 2, 4, 8} {
		outbound(rng, false, g, r.Pick(300, 4000))
		outbound(rng, true, g, r.Pick(600, 8000))
	}
	for rep := 0; rep < r.Pick(2, 20); rep++ {
		for _, kind := range []string{"udp", "tcp", "tcp-peer-closes"} {
			lifecycle(rng, kind, true, false)
			lifecycle(rng, kind, true, true)
			lifecycle(rng, kind, false, true)
		}
		for _, tcp := range []bool{false, true} {
			for _, sl := range []bool{false, true} {
				connectRequest(tcp, sl, false)
				connectRequest(tcp, sl, true)
			}
		}
	}
	r.Observe("tcp_streams", nStreams)
	r.Observe("tcp_single_cut_positions", nCuts)
	r.Observe("tcp_frames_surfaced", nFramesIn)
	r.Observe("udp_and_multicast_datagrams", nDatagramsIn)
	r.Observe("outbound_sends", nSends)
	r.Observe("lifecycle_scenarios", nLifecycles)
	r.Observe("connect_requests_checked", nConnReq)
	r.Assume("loopback UDP delivers windows of <= 16 datagrams in order and without loss; a well-formed frame is one the (C01-checked) decoder accepts from an exact-length slice")
	if nStreams == 0 || nSends == 0 {
		r.Broken("nothing observed")
	}
}
