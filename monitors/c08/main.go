// C08 — datapoint decoding is total and only ever yields in-range values.
package main

import (
	"encoding/hex"
	"fmt"
	"reflect"
	"runtime"
	"sync"
	"sync/atomic"

	"github.com/vapourismo/knx-go/knx/dpt"

	"verif/internal/dptx"
	"verif/internal/mon"
	"verif/internal/spec"
)

func main() { mon.Main("C08", "exploration", mon.Options{}, run) }

var r *mon.Run

var (
	total, accepted, rejected, wrongLen int64
)

// inRange applies the documented-range predicate to a decoded value.
func inRange(d spec.DPT, v dpt.Datapoint) (bool, string) {
	switch d.Family {
	case spec.U8Scaled, spec.V16Scaled, spec.F16:
		f := dptx.Float(v)
		if f != f || f < d.Lo-1e-3 || f > d.Hi+1e-3 {
			return false, fmt.Sprintf("value %v outside [%v, %v]", f, d.Lo, d.Hi)
		}
	case spec.U8Scene:
		if dptx.Uint(v) > 63 {
			return false, fmt.Sprintf("scene number %d >= 64", dptx.Uint(v))
		}
	case spec.U8SceneCt:
		u := dptx.Uint(v)
		if !(u <= 63 || (u >= 128 && u <= 191)) {
			return false, fmt.Sprintf("scene control %d has a scene number >= 64 or reserved bit set", u)
		}
	case spec.Time:
		wd, h, m, s := dptx.Field(v, "Weekday").Uint(), dptx.Field(v, "Hour").Uint(), dptx.Field(v, "Minutes").Uint(), dptx.Field(v, "Seconds").Uint()
		if wd > 7 || h > 23 || m > 59 || s > 59 {
			return false, fmt.Sprintf("time of day %d %d:%d:%d out of range", wd, h, m, s)
		}
	case spec.Date:
		y, m, dd := dptx.Field(v, "Year").Uint(), dptx.Field(v, "Month").Uint(), dptx.Field(v, "Day").Uint()
		if !spec.ValidDate(int(y), int(m), int(dd)) {
			return false, fmt.Sprintf("date %04d-%02d-%02d is not a calendar date in 1990..2089", y, m, dd)
		}
	}
	return true, ""
}

func checkOne(d spec.DPT, p []byte) (ok bool) {
	atomic.AddInt64(&total, 1)
	v := dptx.New(d.Name)
	err, pan := dptx.Unpack(v, p)
	c := map[string]string{"type": d.Name, "payload": hex.EncodeToString(p)}
	if pan != "" {
		r.Violate("decode.panic", map[string]string{"type": d.Name}, c, "%s: Unpack(%x) panicked: %s", d.Name, p, pan)
		return false
	}
	lenOK := len(p) == d.Len
	if d.Len == -1 {
		lenOK = len(p) >= 2
	}
	if !lenOK {
		atomic.AddInt64(&wrongLen, 1)
		if err == nil {
			r.Violate("length.accepted", map[string]string{"type": d.Name}, c, "%s: payload %x of length %d (prescribed %d) was accepted as %s", d.Name, p, len(p), d.Len, dptx.Show(v))
		}
		return false
	}
	if err != nil {
		atomic.AddInt64(&rejected, 1)
		return false
	}
	atomic.AddInt64(&accepted, 1)
	if in, why := inRange(d, v); !in {
		c["value"] = dptx.Show(v)
		r.Violate("range", map[string]string{"type": d.Name}, c, "%s: payload %x decoded successfully to an out-of-range value: %s", d.Name, p, why)
	}
	if pan := dptx.Meta(v); pan != "" {
		c["value"] = dptx.Show(v)
		r.Violate("meta.panic", map[string]string{"type": d.Name}, c, "%s: String()/Unit() of the value decoded from %x panicked: %s", d.Name, p, pan)
	}
	return true
}

func parallel(n int, f func(shard, shards int)) {
	var wg sync.WaitGroup
	for i := 0; i < n; i++ {
		wg.Add(1)
		go func(i int) { defer wg.Done(); f(i, n) }(i)
	}
	wg.Wait()
}

var alphabet = []byte{0x00, 0x01, 0x3f, 0x40, 0x7f, 0x80, 0xbf, 0xc0, 0xfe, 0xff}

func run(run *mon.Run) {
	r = run
	W := runtime.NumCPU()
	names := dptx.Names()
	r.Rule("per registered type: every byte string of length 0..3 over the 10-symbol boundary alphabet, sampled strings of length 4..20 over it; exhaustive correct-length payloads for types up to 3 bytes; all 2^21 significant field combinations (quick) / all 2^24 (thorough) of the 4-byte types; all 2^16 (flag octet, reserved octet) patterns of 242.600 / 251.600; sampled payloads for 5-, 7-, 15-byte and variable types; String()/Unit() called on every decoded value. Non-trivial = the decoder accepted the payload or the length was wrong (both sides of the oracle); distinct counted by construction for enumerations and by hash for samples")
	var nontrivEnum int64
	for _, name := range names {
		d, err := spec.Lookup(name)
		if err != nil {
			r.Inconclusive("no reference row for registered type " + name + ": " + err.Error())
			continue
		}
		r.Crumb("C08 type=%s", name)
		// zero value: String/Unit must be total too
		if pan := dptx.Meta(dptx.New(name)); pan != "" {
			r.Violate("meta.panic", map[string]string{"type": name}, name, "%s: String()/Unit() of the zero value panicked: %s", name, pan)
		}
		// 1. alphabet strings, exhaustive to length 3
		var rec func(prefix []byte, depth int)
		rec = func(prefix []byte, depth int) {
			p := append([]byte(nil), prefix...)
			dup := len(p) == d.Len && len(p) >= 2 && len(p) <= 3 && p[0] == 0 // covered again below
			ok := checkOne(d, p)
			if !dup && (ok || len(p) != d.Len) {
				nontrivEnum++
			}
			if depth == 3 {
				return
			}
			for _, a := range alphabet {
				rec(append(prefix, a), depth+1)
			}
		}
		rec(nil, 0)
		// sampled longer strings
		for n := 4; n <= 20; n++ {
			for k := 0; k < r.Pick(60, 5000); k++ {
				p := make([]byte, n)
				for i := range p {
					p[i] = alphabet[r.Rand.Intn(len(alphabet))]
				}
				if k%3 == 0 {
					p[0] = 0
				}
				if checkOne(d, p) || len(p) != d.Len {
					r.DistinctBytes(name, p)
				}
			}
		}
		// 2. exhaustive correct-length payloads
		switch d.Len {
		case 1:
			for v := 0; v < 256; v++ {
				checkOne(d, []byte{byte(v)})
				nontrivEnum++
			}
		case 2:
			for v := 0; v < 256; v++ {
				checkOne(d, []byte{0, byte(v)})
				nontrivEnum++
			}
		case 3:
			var acc int64
			parallel(W, func(sh, n int) {
				for v := sh; v < 65536; v += n {
					if checkOne(d, []byte{0, byte(v >> 8), byte(v)}) {
						atomic.AddInt64(&acc, 1)
					}
				}
			})
			nontrivEnum += acc
		case 4:
			var acc int64
			m := d.IgnoreMask()
			thorough := r.Thorough()
			parallel(W, func(sh, n int) {
				for v := sh; v < 1<<24; v += n {
					p := []byte{0, byte(v >> 16), byte(v >> 8), byte(v)}
					sig := p[1]&^m[1] == 0 && p[2]&^m[2] == 0 && p[3]&^m[3] == 0
					if thorough || sig || v%41 == 0 {
						if checkOne(d, p) {
							atomic.AddInt64(&acc, 1)
						}
					}
				}
			})
			nontrivEnum += acc
		case 5:
			for k := 0; k < r.Pick(3000, 300000); k++ {
				p := make([]byte, 5)
				r.Rand.Read(p)
				if k%2 == 0 {
					p[0] = 0
				}
				if checkOne(d, p) {
					r.DistinctBytes(name, p)
				}
			}
		case 7:
			// every (flags, reserved) pattern
			for fl := 0; fl < 256; fl++ {
				for rs := 0; rs < 256; rs++ {
					p := []byte{0, byte(fl * 7), byte(rs * 3), byte(fl ^ rs), 0x80, byte(rs), byte(fl)}
					if checkOne(d, p) {
						nontrivEnum++
					}
				}
			}
			for k := 0; k < r.Pick(3000, 300000); k++ {
				p := make([]byte, 7)
				r.Rand.Read(p)
				if checkOne(d, p) {
					r.DistinctBytes(name, p)
				}
			}
		case 15, -1:
			for k := 0; k < r.Pick(5000, 500000); k++ {
				n := 15
				if d.Len == -1 {
					n = r.Rand.Intn(64)
				}
				p := make([]byte, n)
				r.Rand.Read(p)
				if k%3 == 0 {
					for i := range p {
						p[i] = alphabet[r.Rand.Intn(len(alphabet))]
					}
				}
				if checkOne(d, p) {
					r.DistinctBytes(name, p)
				}
			}
		}
	}
	// nil and oversized inputs for every type
	for _, name := range names {
		d, err := spec.Lookup(name)
		if err != nil {
			continue
		}
		checkOne(d, nil)
		checkOne(d, make([]byte, 255))
		checkOne(d, make([]byte, 1024))
		nontrivEnum += 3
	}
	r.Eval(total)
	r.DistinctAdd(nontrivEnum)
	r.Observe("types", len(names))
	r.Observe("payloads_accepted", accepted)
	r.Observe("payloads_rejected_correct_length", rejected)
	r.Observe("payloads_wrong_length", wrongLen)
	r.Sample(map[string]interface{}{"type": "9.001", "payload": "008a24", "note": "mantissa -1500, exponent 1: -300.00 °C must be rejected"})
	for _, s := range [][2]string{{"10.001", "00ff3b3b"}, {"11.001", "001f0c63"}, {"28.001", "00"}, {"251.600", "00010203040010"}} {
		d, _ := spec.Lookup(s[0])
		p, _ := hex.DecodeString(s[1])
		v := dptx.New(s[0])
		if v == nil {
			continue
		}
		e, pan := dptx.Unpack(v, p)
		r.Sample(map[string]interface{}{"type": d.Name, "payload": s[1], "error": fmt.Sprint(e), "panic": pan, "value": fmt.Sprint(reflect.ValueOf(v).Elem().Interface())})
	}
	if accepted == 0 || wrongLen == 0 {
		r.Broken("no accepted payload or no wrong-length payload observed")
	}
	r.Assume("documented ranges taken from internal/spec/dpt.go (03_07_02): 9.xxx per-type ranges, hours<24, minutes/seconds<60, calendar dates 1990..2089, scene<64, 5.001 in 0..100, 5.003 in 0..360")
}
