// C02 — every encodable frame decodes back to exactly the value that was
// encoded; decode -> encode -> decode is stable for accepted byte strings.
//
// Oracle 1 (value -> bytes -> value): the library's encoding must equal the
// bytes an independent builder (internal/spec) produces for the same abstract
// frame, the library's decoder must accept them without error, consume no
// more than the input, and yield a value whose canonical rendering equals
// that of the encoded value (same dynamic service type, same message code).
// Oracle 2 (bytes -> value -> bytes -> value): valid encodings with field
// bytes substituted, DIBs reordered and CRD varied are decoded; if accepted
// and of an encodable type with reserved bits zero, re-encoding and decoding
// again must give the same canonical rendering.
package main

import (
	"encoding/hex"
	"fmt"
	"io"
	"math/rand"
	"net"
	"runtime"
	"sync"
	"sync/atomic"
	"time"

	"github.com/vapourismo/knx-go/knx/cemi"
	"github.com/vapourismo/knx-go/knx/knxnet"

	"verif/internal/gen"
	"verif/internal/libx"
	"verif/internal/mon"
	"verif/internal/spec"
)

func main() { mon.Main("C02", "exploration", mon.Options{}, run) }

var r *mon.Run

var nTwice int64

var nFull, nPartial, nMutAccepted, nMutRejected, nMutSkipped, nCemiDirect int64

func svcName(s uint16) string { return fmt.Sprintf("%#04x", s) }

// oracle 1 on one abstract frame
func checkValue(f *spec.Frame, kind int) {
	r.Eval(1)
	want := f.Encode()
	v := libx.Service(f)
	attrs := map[string]string{"service": svcName(f.Service)}
	if f.Cemi != nil {
		attrs["cemi"] = fmt.Sprintf("%#02x", f.Cemi.Code)
	}
	c := map[string]interface{}{"service": svcName(f.Service), "expected_bytes": hex.EncodeToString(want), "value": libx.Dump(v)}
	var got []byte
	vBefore := libx.Dump(v)
	if p := mon.Guard(func() { got = knxnet.AllocAndPack(v) }); p != "" {
		r.Violate("encode.panic", attrs, c, "encoding %s panicked: %s", libx.Dump(v), p)
		return
	}
	if after := libx.Dump(v); after != vBefore {
		c["value_after_encoding"] = after
		r.Violate("encode.mutates-value", attrs, c, "service %s: encoding changed the value that was encoded: %s -> %s", svcName(f.Service), trunc(vBefore), trunc(after))
		return
	}
	// encoding twice gives the same bytes (no state carried from one call to the next)
	if i := atomic.AddInt64(&nTwice, 1); i%16 == 0 {
		var again []byte
		if p := mon.Guard(func() { again = knxnet.AllocAndPack(v) }); p == "" && string(again) != string(got) {
			r.Violate("encode.not-repeatable", attrs, c, "service %s: encoding the same value twice gives %x and then %x", svcName(f.Service), got, again)
			return
		}
	}
	if string(got) != string(want) {
		c["library_bytes"] = hex.EncodeToString(got)
		r.Violate("encode.bytes", attrs, c, "service %s: library encodes %x, the KNX layout is %x (value %s)", svcName(f.Service), got, want, trunc(libx.Dump(v)))
		return
	}
	r.DistinctBytes("v", got)
	var dec knxnet.Service
	var n uint
	var err error
	if p := mon.Guard(func() { n, err = knxnet.Unpack(got, &dec) }); p != "" {
		r.Violate("decode.panic", attrs, c, "decoding own encoding %x panicked: %s", got, p)
		return
	}
	if err != nil {
		r.Violate("decode.rejected", attrs, c, "service %s: own encoding %x rejected: %v", svcName(f.Service), got, err)
		return
	}
	if int(n) > len(got) {
		r.Violate("decode.consumed", attrs, c, "consumed %d of %d bytes", n, len(got))
		return
	}
	if int(n) == len(got) {
		atomic.AddInt64(&nFull, 1)
	} else {
		atomic.AddInt64(&nPartial, 1)
	}
	if dec == nil || uint16(dec.Service()) != f.Service {
		r.Violate("decode.service", attrs, c, "service %s decoded as %s", svcName(f.Service), libx.Dump(dec))
		return
	}
	a, b := libx.Dump(v), libx.Dump(dec)
	// the decoded value must own its data: a receiver reuses its buffer for
	// the next datagram while the application still holds this value
	for i := range got {
		got[i] ^= 0xa5
	}
	if b2 := libx.Dump(dec); b2 != b {
		c["decoded"], c["decoded_after_buffer_reuse"] = b, b2
		r.Violate("roundtrip.aliasing", attrs, c, "service %s: the decoded value changes when the input buffer is overwritten afterwards (it aliases the receive buffer): %s -> %s", svcName(f.Service), trunc(b), trunc(b2))
		return
	}
	if a != b {
		c["decoded"] = b
		r.Violate("roundtrip.value", attrs, c, "service %s: encoded %s, decoded %s", svcName(f.Service), trunc(a), trunc(b))
		return
	}
	// message code identity for cEMI carriers
	if f.Cemi != nil {
		var m cemi.Message
		switch d := dec.(type) {
		case *knxnet.TunnelReq:
			m = d.Payload
		case *knxnet.RoutingInd:
			m = d.Payload
		}
		if m == nil || uint8(m.MessageCode()) != f.Cemi.Code {
			r.Violate("roundtrip.code", attrs, c, "message code %#x decoded as %s", f.Cemi.Code, libx.Dump(m))
		}
	}
	if r.WantSample() && len(got) > 12 {
		r.Sample(map[string]interface{}{"service": svcName(f.Service), "bytes": hex.EncodeToString(got), "value": trunc(a)})
	}
}

// direct cEMI round trip (cemi.Pack / cemi.Unpack without a service around)
func checkCemi(cm *spec.Cemi) {
	r.Eval(1)
	atomic.AddInt64(&nCemiDirect, 1)
	want := spec.EncodeCemi(nil, cm)
	m := libx.Message(cm)
	attrs := map[string]string{"cemi": fmt.Sprintf("%#02x", cm.Code)}
	c := map[string]interface{}{"expected_bytes": hex.EncodeToString(want), "value": libx.Dump(m)}
	var got []byte
	if p := mon.Guard(func() { got = make([]byte, cemi.Size(m)); cemi.Pack(got, m) }); p != "" {
		r.Violate("cemi.encode.panic", attrs, c, "cemi.Pack(%s) panicked: %s", libx.Dump(m), p)
		return
	}
	if string(got) != string(want) {
		r.Violate("cemi.encode.bytes", attrs, c, "cEMI %#x: library encodes %x, layout is %x", cm.Code, got, want)
		return
	}
	r.DistinctBytes("c", got)
	var dec cemi.Message
	var n uint
	var err error
	if p := mon.Guard(func() { n, err = cemi.Unpack(got, &dec) }); p != "" {
		r.Violate("cemi.decode.panic", attrs, c, "cemi.Unpack(%x) panicked: %s", got, p)
		return
	}
	if err != nil || int(n) > len(got) || dec == nil {
		r.Violate("cemi.decode.rejected", attrs, c, "cEMI %x: err=%v n=%d", got, err, n)
		return
	}
	if uint8(dec.MessageCode()) != cm.Code || libx.Dump(dec) != libx.Dump(m) {
		r.Violate("cemi.roundtrip.value", attrs, c, "cEMI %#x: encoded %s, decoded %s", cm.Code, trunc(libx.Dump(m)), trunc(libx.Dump(dec)))
	}
}

func trunc(s string) string {
	if len(s) > 500 {
		return s[:500] + "…"
	}
	return s
}

// reservedNonZero reports decoded values that carry bits the encoder does not
// write because the format reserves them (sequence bits of an unnumbered
// transport unit).
func reservedNonZero(s knxnet.Service) bool {
	var m cemi.Message
	switch d := s.(type) {
	case *knxnet.TunnelReq:
		m = d.Payload
	case *knxnet.RoutingInd:
		m = d.Payload
	default:
		return false
	}
	var ld *cemi.LData
	switch d := m.(type) {
	case *cemi.LDataReq:
		ld = &d.LData
	case *cemi.LDataInd:
		ld = &d.LData
	case *cemi.LDataCon:
		ld = &d.LData
	default:
		return false
	}
	switch t := ld.Data.(type) {
	case *cemi.AppData:
		return !t.Numbered && t.SeqNumber != 0
	case *cemi.ControlData:
		return !t.Numbered && t.SeqNumber != 0
	}
	return false
}

func unterminatedName(s knxnet.Service) bool {
	switch d := s.(type) {
	case *knxnet.DescriptionRes:
		return len([]rune(d.DeviceHardware.FriendlyName)) > 29
	case *knxnet.SearchRes:
		return len([]rune(d.DescriptionB.DeviceHardware.FriendlyName)) > 29
	}
	return false
}

// oracle 2 on one byte string
func checkBytes(b []byte, how string) {
	r.Eval(1)
	var v knxnet.Service
	var err error
	var n uint
	c := map[string]interface{}{"input": hex.EncodeToString(b), "mutation": how}
	if p := mon.Guard(func() { n, err = knxnet.Unpack(b, &v) }); p != "" {
		// decoding robustness is C01's subject; still a witness here
		r.Violate("mut.decode.panic", nil, c, "decoding %x panicked: %s", b, p)
		return
	}
	if err != nil || v == nil {
		atomic.AddInt64(&nMutRejected, 1)
		return
	}
	_ = n
	pk, ok := v.(knxnet.ServicePackable)
	if !ok {
		atomic.AddInt64(&nMutSkipped, 1)
		return
	}
	if reservedNonZero(v) {
		atomic.AddInt64(&nMutSkipped, 1)
		return
	}
	if d, ok := v.(*knxnet.DescriptionRes); ok && len(d.UnknownBlocks) > 0 {
		// decode-only part of the value: no encodable value has it (DESIGN 5/C02)
		atomic.AddInt64(&nMutSkipped, 1)
		return
	}
	if unterminatedName(v) {
		// a 30-octet name field without terminator is outside the encodable
		// domain (names are 0..29 characters + NUL)
		atomic.AddInt64(&nMutSkipped, 1)
		return
	}
	attrs := map[string]string{"service": svcName(uint16(v.Service()))}
	var b2 []byte
	if p := mon.Guard(func() { b2 = knxnet.AllocAndPack(pk) }); p != "" {
		r.Violate("relay.encode.panic", attrs, c, "re-encoding the decoded value of %x panicked: %s (value %s)", b, p, trunc(libx.Dump(v)))
		return
	}
	var v2 knxnet.Service
	if p := mon.Guard(func() { _, err = knxnet.Unpack(b2, &v2) }); p != "" {
		r.Violate("relay.decode.panic", attrs, c, "decoding the re-encoding %x panicked: %s", b2, p)
		return
	}
	c["reencoded"] = hex.EncodeToString(b2)
	if err != nil {
		r.Violate("relay.rejected", attrs, c, "%x decodes to %s, whose re-encoding %x is rejected: %v", b, trunc(libx.Dump(v)), b2, err)
		return
	}
	if libx.Dump(v) != libx.Dump(v2) {
		r.Violate("relay.drift", attrs, c, "%x decodes to %s; re-encoded %x decodes to %s", b, trunc(libx.Dump(v)), b2, trunc(libx.Dump(v2)))
		return
	}
	atomic.AddInt64(&nMutAccepted, 1)
	r.DistinctBytes("m", b)
}

// mutate substitutes field bytes (never a length-like octet) of a valid frame.
func mutate(rng *rand.Rand, f *spec.Frame) ([]byte, string) {
	b := f.Encode()
	isLen := map[int]bool{}
	for _, o := range f.LenOffsets() {
		isLen[o] = true
	}
	switch rng.Intn(8) {
	case 0:
		if f.Service == spec.SvcDescrRes {
			// reorder the two DIBs
			body := append([]byte(nil), spec.EncodeFamilies(nil, f.FamType, f.Families)...)
			body = spec.EncodeDevInfo(body, f.Dev)
			return spec.Header(f.Service, body), "dib-reorder"
		}
		if f.Service == spec.SvcConnRes && f.Status == 0 {
			// CRD variation: assigned individual address in the CRD
			b[len(b)-2], b[len(b)-1] = byte(rng.Intn(256)), byte(rng.Intn(256))
			return b, "crd-address"
		}
		fallthrough
	default:
		k := 1 + rng.Intn(3)
		for i := 0; i < k; i++ {
			for try := 0; try < 10; try++ {
				p := 6 + rng.Intn(max(1, len(b)-6))
				if p < len(b) && !isLen[p] {
					b[p] = gen.U8(rng)
					break
				}
			}
		}
		return b, "field-substitution"
	}
}

func max(a, b int) int {
	if a > b {
		return a
	}
	return b
}

// transport slice: the encoding travels through the library's own sockets. One
// library socket sends the value (TunnelSocket.Send: Size, Pack, one write);
// the bytes are relayed to a second library socket over TCP re-segmented at
// arbitrary points (single octets, frames glued together, bursts larger than
// the receiver's 4096-byte read buffer) or over UDP one datagram each; what
// arrives on Inbound must equal the value that was sent, in order, none lost.
func transport(rng *rand.Rand, network string, n int) {
	ln, err := net.Listen("tcp4", "127.0.0.1:0")
	if err != nil {
		r.Inconclusive("transport: " + err.Error())
		return
	}
	defer ln.Close()
	var rx *knxnet.TunnelSocket
	var relay func(b []byte, last bool) error
	var closeAll func()
	if network == "tcp" {
		rx, err = knxnet.DialTunnelTCP(ln.Addr().String())
		if err != nil {
			r.Inconclusive("transport: " + err.Error())
			return
		}
		conn, err := ln.Accept()
		if err != nil {
			rx.Close()
			r.Inconclusive("transport: " + err.Error())
			return
		}
		var pending []byte
		relay = func(b []byte, last bool) error {
			pending = append(pending, b...)
			// flush in arbitrary segments; keep a tail back now and then so that a frame is
			// completed only by a later write
			for len(pending) > 0 {
				k := len(pending)
				switch rng.Intn(5) {
				case 0:
					k = 1
				case 1, 2:
					k = 1 + rng.Intn(len(pending))
				case 3:
					if !last && len(pending) < 9000 {
						return nil // glue the next frame(s) on
					}
				}
				if _, err := conn.Write(pending[:k]); err != nil {
					return err
				}
				pending = pending[k:]
				if rng.Intn(4) == 0 {
					time.Sleep(time.Duration(rng.Intn(400)) * time.Microsecond)
				}
			}
			return nil
		}
		closeAll = func() { conn.Close(); rx.Close() }
	} else {
		pc, err := net.ListenPacket("udp4", "127.0.0.1:0")
		if err != nil {
			r.Inconclusive("transport: " + err.Error())
			return
		}
		rx, err = knxnet.DialTunnelUDP(pc.LocalAddr().String())
		if err != nil {
			pc.Close()
			r.Inconclusive("transport: " + err.Error())
			return
		}
		// learn the receiver's address from a first datagram it sends
		rx.Send(&knxnet.DescriptionReq{})
		buf := make([]byte, 2048)
		pc.SetReadDeadline(time.Now().Add(2 * time.Second))
		_, raddr, err := pc.ReadFrom(buf)
		if err != nil {
			pc.Close()
			rx.Close()
			r.Inconclusive("transport: " + err.Error())
			return
		}
		relay = func(b []byte, last bool) error { _, err := pc.WriteTo(b, raddr); return err }
		closeAll = func() { pc.Close(); rx.Close() }
	}
	defer closeAll()
	// the sending side: a library TCP socket whose peer end we read verbatim
	tx, err := knxnet.DialTunnelTCP(ln.Addr().String())
	if err != nil {
		r.Inconclusive("transport: " + err.Error())
		return
	}
	defer tx.Close()
	txPeer, err := ln.Accept()
	if err != nil {
		r.Inconclusive("transport: " + err.Error())
		return
	}
	defer txPeer.Close()
	attrs := map[string]string{"transport": network}
	type sentT struct {
		dump string
		raw  []byte
	}
	batch := 1
	for i := 0; i < n; {
		if network == "tcp" && rng.Intn(6) == 0 {
			batch = 40 + rng.Intn(80) // a burst: crosses the receiver's buffer size
		} else {
			batch = 1 + rng.Intn(4)
		}
		var sent []sentT
		for j := 0; j < batch && i < n; j, i = j+1, i+1 {
			svc := gen.EncodableServices[rng.Intn(len(gen.EncodableServices))]
			kind := -1
			if gen.CarriesCemi(svc) {
				kind = rng.Intn(8)
			}
			f := gen.Frame(rng, svc, kind)
			v := libx.Service(f)
			want := f.Encode()
			r.Crumb("C02 transport %s i=%d bytes=%x", network, i, want)
			if err := tx.Send(v); err != nil {
				r.Inconclusive("transport: send: " + err.Error())
				return
			}
			raw := make([]byte, len(want))
			txPeer.SetReadDeadline(time.Now().Add(5 * time.Second))
			if _, err := io.ReadFull(txPeer, raw); err != nil {
				r.Violate("transport.sent-length", attrs, map[string]interface{}{"expected_bytes": hex.EncodeToString(want)}, "[%s] Send put fewer octets on the wire than the encoding has (%d expected): %v", network, len(want), err)
				return
			}
			if string(raw) != string(want) {
				r.Violate("transport.sent-bytes", attrs, map[string]interface{}{"expected_bytes": hex.EncodeToString(want), "wire": hex.EncodeToString(raw)}, "[%s] Send wrote %x, the KNX layout is %x", network, raw, want)
				return
			}
			if network == "udp" && len(raw) > 1024 {
				continue // larger than the receiver's datagram buffer
			}
			sent = append(sent, sentT{libx.Dump(v), raw})
			if err := relay(raw, j == batch-1 || i == n-1); err != nil {
				r.Inconclusive("transport: relay: " + err.Error())
				return
			}
		}
		for k, sd := range sent {
			r.Eval(1)
			select {
			case got, ok := <-rx.Inbound():
				if !ok {
					r.Violate("transport.receiver-ended", attrs, map[string]interface{}{"expected": trunc(sd.dump), "bytes": hex.EncodeToString(sd.raw)}, "[%s] the receiving socket ended while %d sent frames were outstanding (next: %x)", network, len(sent)-k, sd.raw)
					return
				}
				if d := libx.Dump(got); d != sd.dump {
					r.Violate("transport.value", attrs, map[string]interface{}{"sent": trunc(sd.dump), "received": trunc(d), "bytes": hex.EncodeToString(sd.raw)}, "[%s] sent %s, the receiving socket delivered %s", network, trunc(sd.dump), trunc(d))
					return
				}
				atomic.AddInt64(&nTransport, 1)
				r.DistinctBytes("t"+network, sd.raw)
			case <-time.After(5 * time.Second):
				if network == "udp" {
					r.Inconclusive("transport: a loopback datagram did not arrive (dropped by the kernel?)")
					return
				}
				r.Violate("transport.lost", attrs, map[string]interface{}{"expected": trunc(sd.dump), "bytes": hex.EncodeToString(sd.raw)}, "[%s] frame %x was sent completely but never delivered by the receiving socket", network, sd.raw)
				return
			}
		}
	}
}

var nTransport int64

func run(rr *mon.Run) {
	r = rr
	r.Rule("oracle 1: abstract frames drawn per (service x cEMI kind) cell with corner-biased fields (full 8/16-bit ranges, APCI 0..15, TPCI seq 0..15, payload 1..254, info 0..255, 0..20 families, names 0..29 Latin-1 bytes), encoded by the library and by an independent builder; oracle 2: valid encodings with 1..3 non-length bytes substituted / DIBs reordered / CRD varied. Distinct = distinct encoded byte strings (hash set); non-trivial = the case got past the header into a service-specific code path (all generated cases do; rejected mutations are not counted)")
	perCell := r.Pick(4000, 300000)
	workers := runtime.GOMAXPROCS(0)
	type cell struct {
		svc  uint16
		kind int
	}
	var cells []cell
	for _, s := range gen.EncodableServices {
		if gen.CarriesCemi(s) {
			for k := 0; k < 8; k++ {
				cells = append(cells, cell{s, k})
			}
		} else {
			cells = append(cells, cell{s, -1})
		}
	}
	r.Observe("cells_service_x_cemi_kind", len(cells))
	var wg sync.WaitGroup
	ch := make(chan int, len(cells)*4)
	const shards = 4
	for i := 0; i < len(cells)*shards; i++ {
		ch <- i
	}
	close(ch)
	for w := 0; w < workers; w++ {
		wg.Add(1)
		go func() {
			defer wg.Done()
			for job := range ch {
				ce := cells[job/shards]
				rng := rand.New(rand.NewSource(r.Seed()*1000003 + int64(job)*7919 + 17))
				for i := 0; i < perCell/shards; i++ {
					f := gen.Frame(rng, ce.svc, ce.kind)
					r.Crumb("C02 value job=%d i=%d bytes=%x", job, i, f.Encode())
					checkValue(f, ce.kind)
					if f.Cemi != nil && i%2 == 0 {
						checkCemi(f.Cemi)
					}
					// oracle 2
					for m := 0; m < 2; m++ {
						b, how := mutate(rng, f)
						checkBytes(b, how)
					}
				}
			}
		}()
	}
	wg.Wait()
	for i := 0; i < r.Pick(2, 12); i++ {
		trng := rand.New(rand.NewSource(r.Seed()*77 + int64(i)))
		transport(trng, []string{"tcp", "udp"}[i%2], r.Pick(600, 6000))
	}
	r.Observe("frames_through_library_sockets", atomic.LoadInt64(&nTransport))
	r.Observe("decoder_consumed_whole_encoding", atomic.LoadInt64(&nFull))
	r.Observe("decoder_consumed_less_than_whole", atomic.LoadInt64(&nPartial))
	r.Observe("cemi_direct_roundtrips", atomic.LoadInt64(&nCemiDirect))
	r.Observe("mutations_accepted_and_stable", atomic.LoadInt64(&nMutAccepted))
	r.Observe("mutations_rejected_by_decoder", atomic.LoadInt64(&nMutRejected))
	r.Observe("mutations_skipped_reserved_or_decode_only", atomic.LoadInt64(&nMutSkipped))
	r.Assume("internal/spec/frames.go is a faithful transcription of the KNXnet/IP and cEMI layouts")
	r.Assume("values whose fields the wire does not carry are generated canonical (sequence 0 on unnumbered units, Control zero on refused connect responses, 6-byte hardware address)")
	if atomic.LoadInt64(&nMutAccepted) == 0 {
		r.Broken("no mutated encoding was accepted: oracle 2 observed nothing")
	}
}
