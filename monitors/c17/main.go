// C17 — inbound telegrams reach the application in the order they were
// accepted. Real Tunnel / Router / GroupTunnel / GroupRouter on in-memory
// sockets; acceptance order is the injection order (in-sequence requests,
// routing indications). Oracle: read order == acceptance order, exactly
// once, in every regime: lock-step, at most two unread, and bursts of 2..64
// against stalled / intermittent / ready consumers. (Before the fix recorded
// for C17 the backlog regime inverted in 14 % of the bursts.)
package main

import (
	"fmt"
	"math/rand"
	"runtime"
	"sync"
	"sync/atomic"
	"time"

	"github.com/vapourismo/knx-go/knx"
	"github.com/vapourismo/knx-go/knx/knxnet"

	"verif/internal/gateway"
	"verif/internal/memsock"
	"verif/internal/mon"
	"verif/internal/spec"
)

func main() {
	mon.Main("C17", "exploration", mon.Options{QuickTimeout: 25 * time.Minute, ThoroughTimeout: 150 * time.Minute}, run)
}

var r *mon.Run

type client struct {
	kind   string
	s      *memsock.Sock
	ch     uint8
	seq    uint8
	read   func(to <-chan time.Time) (uint32, bool, bool) // id, open, timedOut
	close  func()
	group  bool
	tunnel bool
}

func start(kind string) (*client, error) {
	c := &client{kind: kind, ch: 0x21}
	real := kind == "tunnel-real-socket" || kind == "group-tunnel-real-socket"
	if real {
		// loopback slice: the real constructors (knx.NewTunnel / knx.NewGroupTunnel)
		// and the library's own UDP socket
		b, err := memsock.NewBridge()
		if err != nil {
			return nil, err
		}
		c.s = b
	} else {
		c.s = memsock.New("udp")
	}
	c.tunnel = kind == "tunnel" || kind == "group-tunnel" || real
	c.group = kind == "group-tunnel" || kind == "group-router" || kind == "group-tunnel-real-socket"
	s := c.s
	s.Handler = func(ev memsock.Event) {
		if ev.P.Service == spec.SvcConnReq {
			s.Deliver(&knxnet.ConnRes{Channel: c.ch, Control: knxnet.HostInfo{Protocol: knxnet.UDP4}})
		}
	}
	tcfg := knx.TunnelConfig{ResendInterval: 20 * time.Millisecond, HeartbeatInterval: 10 * time.Minute, ResponseTimeout: 2 * time.Second}
	switch kind {
	case "tunnel", "tunnel-real-socket":
		var t *knx.Tunnel
		var err error
		if real {
			t, err = knx.NewTunnel(s.BridgeAddr(), knxnet.TunnelLayerData, tcfg)
		} else {
			t, err = knx.NewTunnelOnSocket(s, knxnet.TunnelLayerData, tcfg)
		}
		if err != nil {
			return nil, err
		}
		in := t.Inbound()
		c.read = func(to <-chan time.Time) (uint32, bool, bool) {
			select {
			case m, ok := <-in:
				if !ok {
					return 0, false, false
				}
				id, _ := gateway.IDOfMessage(m)
				return id, true, false
			case <-to:
				return 0, true, true
			}
		}
		c.close = t.Close
		if real {
			c.close = func() { t.Close(); s.CloseBridge() }
		}
	case "router":
		rt, err := knx.NewRouterOnSocket(s, knx.RouterConfig{})
		if err != nil {
			return nil, err
		}
		in := rt.Inbound()
		c.read = func(to <-chan time.Time) (uint32, bool, bool) {
			select {
			case m, ok := <-in:
				if !ok {
					return 0, false, false
				}
				id, _ := gateway.IDOfMessage(m)
				return id, true, false
			case <-to:
				return 0, true, true
			}
		}
		c.close = rt.Close
	case "group-tunnel", "group-tunnel-real-socket":
		var gt knx.GroupTunnel
		var err error
		if real {
			gt, err = knx.NewGroupTunnel(s.BridgeAddr(), tcfg)
		} else {
			gt, err = knx.NewGroupTunnelOnSocket(s, tcfg)
		}
		if err != nil {
			return nil, err
		}
		in := gt.Inbound()
		c.read = groupReader(in)
		c.close = gt.Close
		if real {
			c.close = func() { gt.Close(); s.CloseBridge() }
		}
	case "group-router":
		gr, err := knx.NewGroupRouterOnSocket(s, knx.RouterConfig{})
		if err != nil {
			return nil, err
		}
		in := gr.Inbound()
		c.read = groupReader(in)
		c.close = gr.Close
	}
	return c, nil
}

func groupReader(in <-chan knx.GroupEvent) func(to <-chan time.Time) (uint32, bool, bool) {
	return func(to <-chan time.Time) (uint32, bool, bool) {
		select {
		case ev, ok := <-in:
			if !ok {
				return 0, false, false
			}
			d := ev.Data
			if len(d) != 5 {
				return 0xffffffff, true, false
			}
			return uint32(d[1])<<24 | uint32(d[2])<<16 | uint32(d[3])<<8 | uint32(d[4]), true, false
		case <-to:
			return 0, true, true
		}
	}
}

// inject hands telegram id to the client in acceptance order.
func (c *client) inject(id uint32) bool { return c.injectMode(id, nil) }

// injectMode: with a timer the frame is offered directly (stress mode).
func (c *client) injectMode(id uint32, fast *time.Timer) bool {
	var svc knxnet.Service
	if c.tunnel {
		svc = &knxnet.TunnelReq{Channel: c.ch, SeqNumber: c.seq, Payload: gateway.Ind(id)}
		c.seq++
	} else {
		svc = &knxnet.RoutingInd{Payload: gateway.Ind(id)}
	}
	if c.s.BridgeAddr2() != "" {
		return c.s.Deliver(svc)
	}
	var taken, expired bool
	if fast != nil {
		taken, expired = c.s.DeliverFast(svc, fast)
	} else {
		taken, expired = c.s.DeliverTimeout(svc, 10*time.Second)
	}
	if expired {
		r.Violate("order.receive-loop-stuck", map[string]string{"client": c.kind}, map[string]interface{}{"goroutines": mon.LibGoroutines("knx-go/knx.")},
			"[%s] the client's receive loop stopped taking frames (blocked while handing a telegram to the application side)", c.kind)
		return false
	}
	return taken
}

var (
	nBursts, nTelegrams, nStrictBursts, nInvertedBursts, nReconnectBursts int64
	perms                                               = map[uint64]bool{}
	permMu                                              sync.Mutex
	invByKind                                           = map[string]int64{}
)

// burst: inject ids[0..n) while the consumer follows a behaviour; maxInFlight
// > 0 throttles the injector so that at most that many telegrams are unread.
func burst(c *client, base uint32, n int, behaviour string, maxInFlight int, rng *rand.Rand) (got []uint32, ok bool) {
	var inFlight int32
	startRead := make(chan struct{})
	done := make(chan struct{})
	var stallUs int
	if behaviour == "intermittent" {
		stallUs = 50 + rng.Intn(400)
	}
	delays := make([]int, n)
	for i := range delays {
		if rng.Intn(3) == 0 {
			delays[i] = rng.Intn(stallUs + 1)
		}
	}
	go func() {
		defer close(done)
		if behaviour == "stalled" {
			<-startRead
		}
		rt := time.NewTimer(8 * time.Second) // for the whole burst
		defer rt.Stop()
		for len(got) < n {
			id, open, to := c.read(rt.C)
			if !open || to {
				return
			}
			got = append(got, id)
			atomic.AddInt32(&inFlight, -1)
			if behaviour == "intermittent" {
				if d := delays[len(got)-1]; d > 0 {
					time.Sleep(time.Duration(d) * time.Microsecond)
				}
			}
			if (behaviour == "bursty" || behaviour == "bursty-fast") && len(got)%8 == 0 {
				t0 := time.Now()
				for time.Since(t0) < 5*time.Microsecond {
				}
			}
		}
	}()
	var fast *time.Timer
	if behaviour == "ready-fast" || behaviour == "bursty-fast" {
		fast = time.NewTimer(10 * time.Second)
		defer fast.Stop()
	}
	for i := 0; i < n; i++ {
		if maxInFlight > 0 {
			if behaviour == "stalled" && i == maxInFlight {
				close(startRead)
				startRead = nil
				if rng.Intn(2) == 0 {
					runtime.Gosched()
				}
			}
			for atomic.LoadInt32(&inFlight) >= int32(maxInFlight) {
				runtime.Gosched()
			}
		}
		atomic.AddInt32(&inFlight, 1)
		if !c.injectMode(base+uint32(i), fast) {
			return got, false
		}
		if fast == nil && rng.Intn(4) == 0 {
			time.Sleep(time.Duration(rng.Intn(60)) * time.Microsecond)
		}
	}
	if startRead != nil {
		if behaviour == "stalled" {
			time.Sleep(time.Duration(rng.Intn(300)) * time.Microsecond)
		}
		close(startRead)
	}
	select {
	case <-done:
	case <-time.After(20 * time.Second):
		return got, false
	}
	return got, len(got) == n
}

func connResTaken(s *memsock.Sock, from int) bool {
	for _, e := range s.LogFrom(from) {
		if e.Kind == memsock.Rx && e.Taken && e.P.Service == spec.SvcConnRes {
			return true
		}
	}
	return false
}

// reconnectBurst: n1 telegrams are accepted while the application does not
// read (or reads slowly), the gateway ends the connection, the client
// reconnects (new channel, numbering from 0), n2 more telegrams are accepted on
// the new connection; only then does a stalled application start to read. The
// order of acceptance spans the reconnect.
func reconnectBurst(c *client, base uint32, n1, n2 int, behaviour string, rng *rand.Rand) (got []uint32, ok bool) {
	n := n1 + n2
	startRead := make(chan struct{})
	done := make(chan struct{})
	go func() {
		defer close(done)
		if behaviour == "stalled" {
			<-startRead
		}
		rt := time.NewTimer(8 * time.Second)
		defer rt.Stop()
		for len(got) < n {
			id, open, to := c.read(rt.C)
			if !open || to {
				return
			}
			got = append(got, id)
			if behaviour == "intermittent" && rng.Intn(2) == 0 {
				time.Sleep(time.Duration(rng.Intn(300)) * time.Microsecond)
			}
		}
	}()
	fail := func() ([]uint32, bool) {
		close(startRead)
		select {
		case <-done:
		case <-time.After(10 * time.Second):
		}
		return got, false
	}
	for i := 0; i < n1; i++ {
		if !c.inject(base + uint32(i)) {
			return fail()
		}
	}
	from := c.s.Len()
	old := c.ch
	c.ch += 7
	c.seq = 0
	c.s.Deliver(&knxnet.DiscReq{Channel: old})
	if !c.s.WaitTx(spec.SvcConnReq, from, 1, 5*time.Second) {
		r.Inconclusive(fmt.Sprintf("[%s] no connect request after a disconnect request", c.kind))
		return fail()
	}
	if c.s.BridgeAddr2() != "" {
		time.Sleep(3 * time.Millisecond) // over the real socket the hand-over of the connect response cannot be observed
	} else {
		dl := time.Now().Add(5 * time.Second)
		for !connResTaken(c.s, from) && time.Now().Before(dl) {
			time.Sleep(50 * time.Microsecond)
		}
	}
	atomic.AddInt64(&nReconnectBursts, 1)
	for i := 0; i < n2; i++ {
		if !c.inject(base + uint32(n1+i)) {
			return fail()
		}
	}
	if behaviour == "stalled" {
		time.Sleep(time.Duration(rng.Intn(300)) * time.Microsecond)
	}
	close(startRead)
	select {
	case <-done:
	case <-time.After(20 * time.Second):
		return got, false
	}
	return got, len(got) == n
}

func judge(c *client, sig string, base uint32, n int, got []uint32, complete bool, strict bool) {
	atomic.AddInt64(&nBursts, 1)
	atomic.AddInt64(&nTelegrams, int64(n))
	r.Eval(1)
	attrs := map[string]string{"client": c.kind}
	cs := map[string]interface{}{"burst": sig, "read_order": rel(got, base)}
	seen := map[uint32]int{}
	for _, id := range got {
		seen[id]++
	}
	for i := 0; i < n; i++ {
		switch k := seen[base+uint32(i)]; {
		case k == 0:
			r.Violate("order.lost", attrs, cs, "[%s] telegram #%d of the burst never reached the application (read %d of %d)", sig, i, len(got), n)
			return
		case k > 1:
			r.Violate("order.duplicate", attrs, cs, "[%s] telegram #%d of the burst was delivered %d times", sig, i, k)
			return
		}
	}
	if len(seen) != n || !complete {
		r.Violate("order.extra", attrs, cs, "[%s] the application read %d messages for a burst of %d", sig, len(got), n)
		return
	}
	inverted := false
	for i := 1; i < len(got); i++ {
		if got[i] < got[i-1] {
			inverted = true
			break
		}
	}
	h := mon.Hash64(fmt.Sprint(rel(got, base)))
	permMu.Lock()
	perms[h] = true
	permMu.Unlock()
	if strict {
		atomic.AddInt64(&nStrictBursts, 1)
	}
	if inverted {
		atomic.AddInt64(&nInvertedBursts, 1)
		invByKind[c.kind]++
		class := "backlog"
		if strict {
			class = "at-most-two-unread"
		}
		attrs["class"] = class
		r.Violate("order.inversion", attrs, cs, "[%s] telegrams were read in the order %v, not in the order in which they were accepted", sig, rel(got, base))
	}
	r.DistinctStr(sig)
	if r.WantSample() && n > 2 && n < 12 {
		r.Sample(map[string]interface{}{"burst": sig, "read_order": rel(got, base), "strict": strict})
	}
}

func rel(got []uint32, base uint32) []int {
	out := make([]int, len(got))
	for i, id := range got {
		out[i] = int(id) - int(base)
	}
	return out
}

func run(rr *mon.Run) {
	r = rr
	r.Rule("bursts of accepted telegrams against consumer behaviours {ready, stalled for the burst, intermittently ready} for Tunnel, Router, GroupTunnel, GroupRouter. Order, exactly-once and completeness are demanded in every regime: lock-step on every client; on the group clients at most two telegrams unread at any time incl. bursts of 2 against a stalled consumer that resumes at a random moment; bursts of 2..64 with unbounded backlog. Distinct = distinct (client, behaviour, size, throttle, seed) bursts; interleavings = distinct read permutations")
	defer runtime.GOMAXPROCS(runtime.NumCPU())
	kinds := []string{"tunnel", "router", "group-tunnel", "group-router", "tunnel-real-socket", "group-tunnel-real-socket"}
	rng := rand.New(rand.NewSource(r.Seed()*3331 + 5))
	reps := r.Pick(1, 10)
	base := uint32(1000)
	for rep := 0; rep < reps; rep++ {
		for ki, kind := range kinds {
			runtime.GOMAXPROCS([]int{1, 2, 4, 16}[(rep+ki)%4])
			c, err := start(kind)
			if err != nil {
				r.Violate("connect.failed", nil, nil, "cannot start %s: %v", kind, err)
				continue
			}
			r.Crumb("C17 %s rep=%d", kind, rep)
			okAll := true
			one := func(n int, behaviour string, maxIF int, strict bool) {
				if !okAll || r.Enough() {
					return
				}
				sig := fmt.Sprintf("%s n=%d consumer=%s in-flight<=%d rep=%d base=%d", kind, n, behaviour, maxIF, rep, base)
				got, ok := burst(c, base, n, behaviour, maxIF, rng)
				judge(c, sig, base, n, got, ok, strict)
				if !ok {
					okAll = false
				}
				base += uint32(n) + 10
			}
			// strict regime
			for i := 0; i < 40; i++ {
				one(1+rng.Intn(30), []string{"ready", "intermittent"}[i%2], 1, true) // lock-step
			}
			if c.group {
				for i := 0; i < r.Pick(600, 3000); i++ {
					switch i % 3 {
					case 0:
						one(2, "stalled", 2, true)
					case 1:
						one(2+rng.Intn(40), "intermittent", 2, true)
					default:
						one(2+rng.Intn(40), "ready", 2, true)
					}
				}
			}
			// backlog regime
			for i := 0; i < r.Pick(60, 300); i++ {
				n := 2 + rng.Intn(63)
				if i%4 == 0 {
					n = 2 + rng.Intn(5)
				}
				one(n, []string{"stalled", "intermittent", "ready"}[i%3], 0, false)
			}
			// a reconnect in the middle of a backlog: what was accepted on the old
			// connection is read before what is accepted on the new one
			if c.tunnel {
				for i := 0; i < r.Pick(12, 60) && okAll && !r.Enough(); i++ {
					n1, n2 := 1+rng.Intn(12), 1+rng.Intn(12)
					beh := []string{"stalled", "intermittent"}[i%2]
					sig := fmt.Sprintf("%s reconnect after %d of %d consumer=%s rep=%d base=%d", kind, n1, n1+n2, beh, rep, base)
					got, ok := reconnectBurst(c, base, n1, n2, beh, rng)
					judge(c, sig, base, n1+n2, got, ok, false)
					if !ok {
						okAll = false
					}
					base += uint32(n1+n2) + 10
				}
			}
			// stress: many back-to-back bursts of 64 against a reader that is always
			// ready or pauses after every few telegrams: the windows in which a hand-over
			// can overtake a queued telegram are a few instructions wide
			for i := 0; i < r.Pick(4000, 8000); i++ {
				one(64, []string{"ready-fast", "bursty-fast"}[i%2], 0, false)
			}
			c.close()
		}
	}
	r.Observe("bursts", nBursts)
	r.Observe("telegrams", nTelegrams)
	r.Observe("strict_regime_bursts", nStrictBursts)
	r.Observe("bursts_spanning_a_reconnect", nReconnectBursts)
	r.Observe("bursts_with_an_inversion", nInvertedBursts)
	r.Observe("inverted_bursts_by_client", invByKind)
	r.Observe("distinct_read_permutations", len(perms))
	r.Assume("acceptance order = injection order (in-sequence tunnelling requests / routing indications handed over one at a time)")
	if nBursts == 0 {
		r.Broken("nothing observed")
	}
}
