// C20 — describe / discover calls are time-bounded and return only matching
// responses. The real DescribeTunnel runs against scripted loopback UDP
// servers, the real Discover against responders on a per-run multicast group;
// an AF_PACKET capture counts the requests that leave the host.
package main

import (
	"encoding/binary"
	"encoding/hex"
	"fmt"
	"math/rand"
	"net"
	"os"
	"sync"
	"sync/atomic"
	"syscall"
	"time"

	"github.com/vapourismo/knx-go/knx"
	"github.com/vapourismo/knx-go/knx/knxnet"

	"verif/internal/gen"
	"verif/internal/libx"
	"verif/internal/mon"
	"verif/internal/spec"
)

func main() {
	mon.Main("C20", "exploration", mon.Options{QuickTimeout: 25 * time.Minute, ThoroughTimeout: 150 * time.Minute}, run)
}

var r *mon.Run

var nDescribe, nDiscover, nRequestsSeen, nCaptured, nFlood int64
var worstOvershootMs float64

func fdCount() int {
	es, err := os.ReadDir("/proc/self/fd")
	if err != nil {
		return -1
	}
	return len(es)
}

func decode(b []byte) (string, bool) {
	var s knxnet.Service
	var err error
	if p := mon.Guard(func() { _, err = knxnet.Unpack(append([]byte(nil), b...), &s) }); p != "" || err != nil || s == nil {
		return "", false
	}
	return libx.Dump(s), true
}

type step struct {
	At   time.Duration // offset from the moment the request arrived
	What string        // descr | other | malformed | foreign | flood
	Data []byte
}

type describeCase struct {
	Timeout time.Duration
	Steps   []step
	Name    string
}

func descrFrame(rng *rand.Rand, tag int) []byte {
	f := gen.Frame(rng, spec.SvcDescrRes, -1)
	f.Dev.Name = []byte(fmt.Sprintf("dev-%d", tag))
	return f.Encode()
}

func runDescribe(rng *rand.Rand, dc describeCase, can *mon.Canary) {
	nDescribe++
	r.Eval(1)
	sig := fmt.Sprintf("describe %s timeout=%v", dc.Name, dc.Timeout)
	r.Crumb("C20 %s", sig)
	attrs := map[string]string{"call": "describe", "scenario": dc.Name}
	srv, err := net.ListenUDP("udp4", &net.UDPAddr{IP: net.IPv4(127, 0, 0, 1)})
	if err != nil {
		r.Inconclusive("describe: " + err.Error())
		return
	}
	defer srv.Close()
	foreign, _ := net.ListenUDP("udp4", &net.UDPAddr{IP: net.IPv4(127, 0, 0, 1)})
	defer foreign.Close()
	var reqs [][]byte
	var reqFrom []*net.UDPAddr
	var mu sync.Mutex
	firstSent := map[int]time.Time{}
	var t0 time.Time
	var reqArrived atomic.Int64
	done := make(chan struct{})
	go func() {
		buf := make([]byte, 2048)
		started := false
		for {
			srv.SetReadDeadline(time.Now().Add(dc.Timeout + 3*time.Second))
			n, from, err := srv.ReadFromUDP(buf)
			if err != nil {
				return
			}
			mu.Lock()
			reqs = append(reqs, append([]byte(nil), buf[:n]...))
			reqFrom = append(reqFrom, from)
			mu.Unlock()
			if started {
				continue
			}
			started = true
			arrived := time.Now()
			reqArrived.Store(arrived.UnixNano())
			go func() {
				for i, st := range dc.Steps {
					select {
					case <-done:
						return
					case <-time.After(time.Until(arrived.Add(st.At))):
					}
					switch st.What {
					case "foreign":
						foreign.WriteToUDP(st.Data, from)
					case "flood":
						// unrelated well-formed frames every 700 us until well past the timeout
						end := arrived.Add(dc.Timeout + dc.Timeout/2 + 30*time.Millisecond)
						for time.Now().Before(end) {
							select {
							case <-done:
								return
							default:
							}
							srv.WriteToUDP(st.Data, from)
							atomic.AddInt64(&nFlood, 1)
							time.Sleep(700 * time.Microsecond)
						}
					default:
						mu.Lock()
						firstSent[i] = time.Now()
						mu.Unlock()
						srv.WriteToUDP(st.Data, from)
					}
				}
			}()
		}
	}()
	fdBefore := fdCount()
	t0 = time.Now()
	callStart := t0
	var res *knxnet.DescriptionRes
	var cerr error
	ret := make(chan struct{})
	var retAt time.Time
	go func() {
		if p := mon.Guard(func() { res, cerr = knx.DescribeTunnel(srv.LocalAddr().String(), dc.Timeout) }); p != "" {
			r.Violate("call.panic", attrs, map[string]interface{}{"scenario": sig}, "[%s] DescribeTunnel panicked: %s", sig, p)
		}
		retAt = time.Now()
		close(ret)
	}()
	hang := 20*dc.Timeout + 5*time.Second
	select {
	case <-ret:
	case <-time.After(hang):
		close(done)
		r.Violate("call.hang", attrs, map[string]interface{}{"scenario": sig}, "[%s] DescribeTunnel did not return within %v (timeout %v): the deadline is pushed back by unrelated frames", sig, hang, dc.Timeout)
		return
	}
	elapsed := retAt.Sub(t0)
	close(done)
	if elapsed > dc.Timeout+15*time.Millisecond {
		can.Settle()
	}
	stall := can.StallSince(callStart)
	slack := 3*stall + 20*time.Millisecond
	// expected: the first description response sent by the queried address clearly before the deadline
	mu.Lock()
	defer mu.Unlock()
	var must, may []string
	for i, st := range dc.Steps {
		if st.What != "descr" {
			continue
		}
		d, _ := decode(st.Data)
		sent, ok := firstSent[i]
		if !ok {
			continue
		}
		off := sent.Sub(t0)
		if off < dc.Timeout-slack-5*time.Millisecond {
			must = append(must, d)
		} else if off < dc.Timeout+slack {
			may = append(may, d)
		}
		if len(must) > 0 {
			break
		}
	}
	cs := map[string]interface{}{"scenario": sig, "elapsed_ms": float64(elapsed) / 1e6, "steps": describeSteps(dc.Steps)}
	if cerr != nil {
		r.Violate("describe.error", attrs, cs, "[%s] DescribeTunnel returned an error: %v", sig, cerr)
		return
	}
	got := ""
	if res != nil {
		got = libx.Dump(res)
	}
	switch {
	case len(must) > 0:
		// candidates: a "may" one sent before the must one is also acceptable
		ok := got == must[0]
		for _, m := range may {
			if got == m {
				ok = true
			}
		}
		if !ok {
			cs["got"], cs["want"] = clipS(got), clipS(must[0])
			r.Violate("describe.result", attrs, cs, "[%s] DescribeTunnel returned %s; the first description response sent by the queried address was %s", sig, orNil(got), clipS(must[0]))
			return
		}
	case res != nil:
		ok := false
		for _, m := range may {
			if got == m {
				ok = true
			}
		}
		if !ok {
			cs["got"] = clipS(got)
			r.Violate("describe.result", attrs, cs, "[%s] DescribeTunnel returned %s although the queried address sent no description response before the timeout", sig, clipS(got))
			return
		}
	}
	if res == nil {
		if elapsed+100*time.Microsecond < dc.Timeout {
			r.Violate("describe.early", attrs, cs, "[%s] DescribeTunnel gave up after %v, before the timeout %v", sig, elapsed, dc.Timeout)
			return
		}
		over := elapsed - dc.Timeout
		if a := reqArrived.Load(); a != 0 {
			// the timeout runs from the moment the request was sent
			over = t0.Add(elapsed).Sub(time.Unix(0, a)) - dc.Timeout
		}
		if ms := float64(over) / 1e6; ms > worstOvershootMs {
			worstOvershootMs = ms
		}
		if over > slack && stall < 250*time.Millisecond {
			r.Violate("describe.late", attrs, cs, "[%s] DescribeTunnel returned %v after the timeout %v (slack %v)", sig, over, dc.Timeout, slack)
			return
		}
	}
	// exactly one request, advertising the socket's own endpoint
	time.Sleep(2 * time.Millisecond)
	nreq := 0
	for i, q := range reqs {
		p := spec.Parse(q)
		if p.Service != spec.SvcDescrReq {
			continue
		}
		nreq++
		nRequestsSeen++
		want := spec.HPAI{Proto: 1, Port: uint16(reqFrom[i].Port)}
		copy(want.IP[:], reqFrom[i].IP.To4())
		if !p.OK || p.Control != want {
			r.Violate("describe.request-endpoint", attrs, map[string]interface{}{"scenario": sig, "request": hex.EncodeToString(q), "source": reqFrom[i].String()},
				"[%s] the description request advertises %+v, the datagram came from %s", sig, p.Control, reqFrom[i])
			return
		}
	}
	if nreq != 1 {
		r.Violate("describe.request-count", attrs, cs, "[%s] the server received %d description requests (datagrams: %d)", sig, nreq, len(reqs))
		return
	}
	// socket released
	fdAfter := fdCount()
	for i := 0; i < 50 && fdAfter > fdBefore; i++ {
		time.Sleep(time.Millisecond)
		fdAfter = fdCount()
	}
	if fdAfter > fdBefore {
		r.Violate("describe.socket-leak", attrs, map[string]interface{}{"scenario": sig, "fds_before": fdBefore, "fds_after": fdAfter}, "[%s] %d file descriptors before the call, %d after it returned: the socket was not released", sig, fdBefore, fdAfter)
		return
	}
	r.DistinctStr(sig + fmt.Sprint(describeSteps(dc.Steps)))
	if r.WantSample() {
		r.Sample(map[string]interface{}{"call": "DescribeTunnel", "scenario": dc.Name, "timeout_ms": float64(dc.Timeout) / 1e6, "steps": describeSteps(dc.Steps), "elapsed_ms": float64(elapsed) / 1e6, "result_nil": res == nil})
	}
}

// closedPort: the queried host is up but nothing listens on the port (the
// kernel answers with ICMP port unreachable, the connected socket's read
// fails): the call must still report "no result" once the timeout elapsed.
func closedPort(timeout time.Duration, can *mon.Canary) {
	nDescribe++
	r.Eval(1)
	sig := fmt.Sprintf("describe closed-port timeout=%v", timeout)
	r.Crumb("C20 %s", sig)
	attrs := map[string]string{"call": "describe", "scenario": "closed-port"}
	tmp, err := net.ListenUDP("udp4", &net.UDPAddr{IP: net.IPv4(127, 0, 0, 1)})
	if err != nil {
		return
	}
	addr := tmp.LocalAddr().String()
	tmp.Close()
	fdBefore := fdCount()
	t0 := time.Now()
	var res *knxnet.DescriptionRes
	var cerr error
	var retAt time.Time
	ret := make(chan struct{})
	go func() {
		res, cerr = knx.DescribeTunnel(addr, timeout)
		retAt = time.Now()
		close(ret)
	}()
	select {
	case <-ret:
	case <-time.After(20*timeout + 5*time.Second):
		r.Violate("call.hang", attrs, map[string]interface{}{"scenario": sig}, "[%s] DescribeTunnel did not return", sig)
		return
	}
	elapsed := retAt.Sub(t0)
	if elapsed > timeout+15*time.Millisecond {
		can.Settle()
	}
	stall := can.StallSince(t0)
	cs := map[string]interface{}{"scenario": sig, "elapsed_ms": float64(elapsed) / 1e6, "error": fmt.Sprint(cerr)}
	if res != nil || cerr != nil {
		r.Violate("describe.result", attrs, cs, "[%s] DescribeTunnel returned (%v, %v); a server that does not answer yields no result and no error once the timeout elapsed", sig, res != nil, cerr)
		return
	}
	if elapsed+100*time.Microsecond < timeout {
		r.Violate("describe.early", attrs, cs, "[%s] DescribeTunnel gave up after %v, before the timeout %v", sig, elapsed, timeout)
		return
	}
	if over := elapsed - timeout; over > 3*stall+25*time.Millisecond && stall < 250*time.Millisecond {
		r.Violate("describe.late", attrs, cs, "[%s] DescribeTunnel returned %v after the timeout %v", sig, over, timeout)
		return
	}
	fdAfter := fdCount()
	for i := 0; i < 50 && fdAfter > fdBefore; i++ {
		time.Sleep(time.Millisecond)
		fdAfter = fdCount()
	}
	if fdAfter > fdBefore {
		r.Violate("describe.socket-leak", attrs, cs, "[%s] the socket was not released", sig)
		return
	}
	r.DistinctStr(sig)
}

func orNil(s string) string {
	if s == "" {
		return "nil"
	}
	return clipS(s)
}

func clipS(s string) string {
	if len(s) > 220 {
		return s[:220] + "…"
	}
	return s
}

func describeSteps(st []step) []string {
	var out []string
	for _, s := range st {
		out = append(out, fmt.Sprintf("%v:%s(%d bytes)", s.At, s.What, len(s.Data)))
	}
	return out
}

func describeCases(rng *rand.Rand, n int) []describeCase {
	timeouts := []time.Duration{time.Millisecond, 5 * time.Millisecond, 20 * time.Millisecond, 60 * time.Millisecond, 150 * time.Millisecond, 500 * time.Millisecond}
	other := func() []byte {
		svc := []uint16{spec.SvcConnStateRes, spec.SvcSearchRes, spec.SvcTunnelReq, spec.SvcConnRes, spec.SvcRoutingInd, spec.SvcDescrReq}[rng.Intn(6)]
		return gen.Frame(rng, svc, -1).Encode()
	}
	malformed1 := func() []byte {
		d := descrFrame(rng, 999)
		switch rng.Intn(4) {
		case 0:
			return d[:6+rng.Intn(len(d)-6)]
		case 1:
			d[6] = 0 // zero-length DIB
			return d
		case 2:
			return gen.Bytes(rng, 1+rng.Intn(40))
		default:
			d[0] = 5
			return d
		}
	}
	malformed := func() []byte {
		for {
			b := malformed1()
			// a truncation at a DIB boundary is still a well-formed description response
			var svc knxnet.Service
			if _, err := knxnet.Unpack(append([]byte(nil), b...), &svc); err == nil {
				if _, isDescr := svc.(*knxnet.DescriptionRes); isDescr {
					continue
				}
			}
			return b
		}
	}
	var out []describeCase
	for i := 0; i < n; i++ {
		to := timeouts[i%len(timeouts)]
		if i%7 == 6 {
			to = time.Duration(1+rng.Intn(120)) * time.Millisecond
		}
		dc := describeCase{Timeout: to}
		switch i % 10 {
		case 0:
			dc.Name = "immediate"
			dc.Steps = []step{{0, "descr", descrFrame(rng, i)}}
		case 1:
			dc.Name = "late-but-in-time"
			dc.Steps = []step{{to / 3, "descr", descrFrame(rng, i)}}
		case 2:
			dc.Name = "never"
		case 3:
			dc.Name = "too-late"
			dc.Steps = []step{{to + to/2 + 30*time.Millisecond, "descr", descrFrame(rng, i)}}
		case 4:
			dc.Name = "repeatedly"
			dc.Steps = []step{{0, "descr", descrFrame(rng, i)}, {200 * time.Microsecond, "descr", descrFrame(rng, i+100000)}, {400 * time.Microsecond, "descr", descrFrame(rng, i+200000)}}
		case 5:
			dc.Name = "other-types-first"
			dc.Steps = []step{{0, "other", other()}, {100 * time.Microsecond, "other", other()}, {to / 4, "descr", descrFrame(rng, i)}}
		case 6:
			dc.Name = "malformed-first"
			dc.Steps = []step{{0, "malformed", malformed()}, {100 * time.Microsecond, "malformed", malformed()}, {to / 4, "descr", descrFrame(rng, i)}}
		case 7:
			dc.Name = "foreign-source-only"
			dc.Steps = []step{{0, "foreign", descrFrame(rng, i)}}
		case 8:
			dc.Name = "flooded-with-unrelated-frames"
			dc.Steps = []step{{0, "flood", other()}}
		default:
			dc.Name = "foreign-then-real"
			dc.Steps = []step{{0, "foreign", descrFrame(rng, i+300000)}, {to / 4, "descr", descrFrame(rng, i)}}
		}
		out = append(out, dc)
	}
	return out
}

// ---------------------------------------------------------------- discover

func htons(v uint16) uint16 { return v<<8 | v>>8 }

// capture counts outgoing search requests to group:port via AF_PACKET.
type capture struct {
	fd    int
	first atomic.Int64 // unix nanos of the first captured request
	count int64
	seen  chan struct{}
	stop  chan struct{}
	ok    bool
}

func startCapture(group net.IP, port int) *capture {
	c := &capture{seen: make(chan struct{}, 64), stop: make(chan struct{})}
	fd, err := syscall.Socket(syscall.AF_PACKET, syscall.SOCK_RAW, int(htons(syscall.ETH_P_ALL)))
	if err != nil {
		return c
	}
	syscall.SetsockoptTimeval(fd, syscall.SOL_SOCKET, syscall.SO_RCVTIMEO, &syscall.Timeval{Usec: 20000})
	syscall.SetsockoptInt(fd, syscall.SOL_SOCKET, syscall.SO_TIMESTAMPNS, 1) // kernel transmit time of the request
	c.fd, c.ok = fd, true
	go func() {
		defer syscall.Close(fd)
		buf := make([]byte, 65536)
		oob := make([]byte, 256)
		for {
			select {
			case <-c.stop:
				return
			default:
			}
			n, oobn, _, from, err := syscall.Recvmsg(fd, buf, oob, 0)
			if err != nil || n < 14+20+8+6 {
				continue
			}
			at := time.Now().UnixNano()
			if msgs, err := syscall.ParseSocketControlMessage(oob[:oobn]); err == nil {
				for _, m := range msgs {
					if m.Header.Level == syscall.SOL_SOCKET && m.Header.Type == syscall.SO_TIMESTAMPNS && len(m.Data) >= 16 {
						at = int64(binary.LittleEndian.Uint64(m.Data[0:8]))*1e9 + int64(binary.LittleEndian.Uint64(m.Data[8:16]))
					}
				}
			}
			ll, _ := from.(*syscall.SockaddrLinklayer)
			if ll == nil || ll.Pkttype != 4 { // PACKET_OUTGOING
				continue
			}
			b := buf[:n]
			if b[12] != 0x08 || b[13] != 0x00 {
				continue
			}
			ip := b[14:]
			ihl := int(ip[0]&15) * 4
			if ip[9] != 17 || len(ip) < ihl+8 || !net.IP(ip[16:20]).Equal(group.To4()) {
				continue
			}
			udp := ip[ihl:]
			if int(udp[2])<<8|int(udp[3]) != port {
				continue
			}
			pl := udp[8:]
			if len(pl) >= 6 && pl[0] == 6 && pl[1] == 0x10 && pl[2] == 0x02 && pl[3] == 0x01 {
				c.first.CompareAndSwap(0, at)
				atomic.AddInt64(&c.count, 1)
				atomic.AddInt64(&nCaptured, 1)
				select {
				case c.seen <- struct{}{}:
				default:
				}
			}
		}
	}()
	return c
}

func searchFrame(rng *rand.Rand, tag int) []byte {
	f := gen.Frame(rng, spec.SvcSearchRes, -1)
	f.Dev.Type, f.FamType = 1, 2
	f.Dev.Name = []byte(fmt.Sprintf("srv-%d", tag))
	return f.Encode()
}

var multicastOK = true

func runDiscover(rng *rand.Rand, id int, timeout time.Duration, responders int, can *mon.Canary) {
	pid := os.Getpid()
	gip := net.IPv4(239, byte(10+pid%100), byte((pid/100)%250), byte(1+id%250))
	port := 21000 + (id*7+pid)%20000
	group := fmt.Sprintf("%s:%d", gip, port)
	sig := fmt.Sprintf("discover timeout=%v responders=%d", timeout, responders)
	r.Crumb("C20 %s group=%s", sig, group)
	attrs := map[string]string{"call": "discover"}
	gaddr, _ := net.ResolveUDPAddr("udp4", group)
	peer, err := net.DialUDP("udp4", nil, gaddr)
	if err != nil {
		r.Inconclusive("discover: " + err.Error())
		return
	}
	defer peer.Close()
	cap_ := startCapture(gip, port)
	defer close(cap_.stop)
	fdBefore := fdCount()
	var res []*knxnet.SearchRes
	var cerr error
	ret := make(chan struct{})
	callStart := time.Now()
	var retAt time.Time
	go func() {
		if p := mon.Guard(func() { res, cerr = knx.Discover(group, timeout) }); p != "" {
			r.Violate("call.panic", attrs, map[string]interface{}{"scenario": sig}, "[%s] Discover panicked: %s", sig, p)
		}
		retAt = time.Now()
		close(ret)
	}()
	// responders start when the request was seen (or after a fixed delay without capture)
	if cap_.ok {
		select {
		case <-cap_.seen:
		case <-time.After(200 * time.Millisecond):
		}
	} else {
		time.Sleep(3 * time.Millisecond)
	}
	type sent struct {
		dump string
		at   time.Duration
	}
	var seq []sent
	for i := 0; i < responders; i++ {
		if time.Since(callStart) > timeout+timeout/2+20*time.Millisecond {
			break
		}
		b := searchFrame(rng, id*100+i)
		d, ok := decode(b)
		if !ok {
			continue
		}
		switch rng.Intn(4) {
		case 0:
			peer.Write(gen.Frame(rng, spec.SvcDescrRes, -1).Encode())
		case 1:
			peer.Write(gen.Bytes(rng, 1+rng.Intn(30)))
		}
		at := time.Since(callStart)
		peer.Write(b)
		seq = append(seq, sent{d, at})
		time.Sleep(time.Millisecond)
	}
	hang := 20*timeout + 5*time.Second
	select {
	case <-ret:
	case <-time.After(hang):
		r.Violate("call.hang", attrs, map[string]interface{}{"scenario": sig}, "[%s] Discover did not return within %v", sig, hang)
		return
	}
	elapsed := retAt.Sub(callStart)
	nDiscover++
	r.Eval(1)
	if elapsed > timeout+15*time.Millisecond {
		can.Settle()
	}
	stall := can.StallSince(callStart)
	slack := 3*stall + 20*time.Millisecond
	cs := map[string]interface{}{"scenario": sig, "group": group, "elapsed_ms": float64(elapsed) / 1e6, "sent": len(seq), "returned": len(res)}
	if cerr != nil {
		if !multicastOK {
			return
		}
		r.Inconclusive(fmt.Sprintf("%s: Discover failed: %v", sig, cerr))
		multicastOK = false
		return
	}
	if elapsed+100*time.Microsecond < timeout {
		r.Violate("discover.early", attrs, cs, "[%s] Discover returned after %v, before its timeout %v", sig, elapsed, timeout)
		return
	}
	// the timeout runs from the moment the request was sent (socket set-up comes before it)
	sinceReq := elapsed
	setup := 60 * time.Millisecond // allowance for creating the socket and joining the group when the request time is unknown
	if f := cap_.first.Load(); f != 0 {
		sinceReq = retAt.Sub(time.Unix(0, f))
		setup = 0
	}
	if over := sinceReq - timeout; over > slack+setup && stall < 250*time.Millisecond {
		r.Violate("discover.late", attrs, cs, "[%s] Discover returned %v after its timeout %v had run out, counted from the moment its request left (slack %v)", sig, over, timeout, slack+setup)
		return
	}
	// result = prefix of the sent sequence, each once, in order
	for i, sr := range res {
		if i >= len(seq) || libx.Dump(sr) != seq[i].dump {
			cs["position"] = i
			r.Violate("discover.result", attrs, cs, "[%s] result #%d of Discover is not the #%d search response that was sent (order, duplicates, foreign frames or loss)", sig, i, i)
			return
		}
	}
	mustK := 0
	for _, s := range seq {
		if s.at < timeout-50*time.Millisecond-slack {
			mustK++
		}
	}
	if len(res) < mustK {
		r.Violate("discover.missing", attrs, cs, "[%s] Discover returned %d search responses; %d had been sent more than 50 ms before the deadline", sig, len(res), mustK)
		return
	}
	// exactly one request left the host
	if cap_.ok {
		time.Sleep(time.Millisecond)
		if n := atomic.LoadInt64(&cap_.count); n != 1 {
			if n == 0 {
				r.Inconclusive(sig + ": the packet capture saw no search request (capture may have started late)")
			} else {
				r.Violate("discover.request-count", attrs, cs, "[%s] %d search requests left the host for one Discover call", sig, n)
				return
			}
		}
	}
	fdAfter := fdCount()
	for i := 0; i < 50 && fdAfter > fdBefore+1; i++ {
		time.Sleep(time.Millisecond)
		fdAfter = fdCount()
	}
	// the capture socket (opened after fdBefore was taken? no: before) is still open; compare with it
	if fdAfter > fdBefore {
		r.Violate("discover.socket-leak", attrs, map[string]interface{}{"scenario": sig, "fds_before": fdBefore, "fds_after": fdAfter}, "[%s] %d file descriptors before the call, %d after it returned: the socket was not released", sig, fdBefore, fdAfter)
		return
	}
	r.DistinctStr(fmt.Sprintf("%s|%d|%d", sig, id, len(res)))
	if r.WantSample() && len(seq) > 0 {
		r.Sample(map[string]interface{}{"call": "Discover", "timeout_ms": float64(timeout) / 1e6, "search_responses_sent": len(seq), "returned": len(res), "requests_captured": atomic.LoadInt64(&cap_.count), "elapsed_ms": float64(elapsed) / 1e6})
	}
}

func run(rr *mon.Run) {
	r = rr
	r.Rule("DescribeTunnel against scripted loopback servers: immediate, late-but-in-time, never, too late, repeatedly, other service types first, malformed frames first, foreign source only, foreign then real, flooded with unrelated frames for 1.5 x timeout; timeouts 1..500 ms. Discover on a per-run multicast group with 0..20 search responses 1 ms apart and other / garbage frames interleaved; timeouts 5..300 ms; requests counted by an AF_PACKET capture. Distinct = distinct (scenario, timeout, script) signatures that ran to completion")
	rng := rand.New(rand.NewSource(r.Seed()*2221 + 9))
	can := mon.StartCanary()
	for _, dc := range describeCases(rng, r.Pick(60, 1500)) {
		runDescribe(rng, dc, can)
	}
	for i := 0; i < r.Pick(6, 120); i++ {
		closedPort(time.Duration([]int{20, 80, 200}[i%3])*time.Millisecond, can)
	}
	dts := []time.Duration{5 * time.Millisecond, 30 * time.Millisecond, 80 * time.Millisecond, 150 * time.Millisecond, 300 * time.Millisecond}
	for i := 0; i < r.Pick(25, 600) && multicastOK; i++ {
		runDiscover(rng, i, dts[i%len(dts)], []int{0, 1, 3, 8, 20, 12}[i%6], can)
	}
	can.Stop()
	r.Observe("describe_calls", nDescribe)
	r.Observe("discover_calls", nDiscover)
	r.Observe("description_requests_received_by_servers", nRequestsSeen)
	r.Observe("search_requests_captured_on_the_wire", nCaptured)
	r.Observe("unrelated_frames_flooded", nFlood)
	r.Observe("worst_describe_overshoot_ms", worstOvershootMs)
	r.Assume("upper time bounds carry 3 x worst canary stall since the call started + 20 ms; lower bounds (not before the timeout) are exact")
	r.Assume("a response sent within the slack of the deadline may or may not be returned")
	if nDescribe == 0 {
		r.Broken("nothing observed")
	}
	if nDiscover == 0 {
		r.Inconclusive("no Discover call could be judged (no multicast path in this sandbox)")
	}
}
