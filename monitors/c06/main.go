// C06 — a datapoint value read from the bus and written back never drifts.
// Oracle: for every accepted payload P: v = dec(P); P' = enc(v); dec(P')
// succeeds and equals v bitwise; byte-identical families: P' equals the
// reference re-encoding of P (reserved bits masked, documented replacements).
package main

import (
	"reflect"
	"encoding/hex"
	"fmt"
	"math"
	"runtime"
	"sync"
	"sync/atomic"

	"verif/internal/dptx"
	"verif/internal/mon"
	"verif/internal/spec"
)

func main() {
	mon.Main("C06", "exploration", mon.Options{}, run)
}

type typeStats struct {
	accepted, rejected, drift, knownDrift int64
	histMu                                sync.Mutex
	hist                                  [][]byte // a few payloads accepted earlier (previous telegrams for the history check)
}

var (
	r       *mon.Run
	statsMu sync.Mutex
	stats   = map[string]*typeStats{}
)

func st(name string) *typeStats {
	statsMu.Lock()
	defer statsMu.Unlock()
	s := stats[name]
	if s == nil {
		s = &typeStats{}
		stats[name] = s
	}
	return s
}

var histCtr int64

// checkOne runs the oracle for one payload.
func checkOne(d spec.DPT, s *typeStats, p []byte) (accepted bool) {
	a := dptx.New(d.Name)
	err, pan := dptx.Unpack(a, p)
	if pan != "" {
		r.Violate("decode.panic", map[string]string{"type": d.Name}, map[string]string{"type": d.Name, "payload": hex.EncodeToString(p)}, "%s: Unpack(%x) panicked: %s", d.Name, p, pan)
		return false
	}
	if err != nil {
		atomic.AddInt64(&s.rejected, 1)
		return false
	}
	atomic.AddInt64(&s.accepted, 1)
	p2, pan := dptx.Pack(a)
	if pan != "" {
		r.Violate("encode.panic", map[string]string{"type": d.Name}, map[string]string{"type": d.Name, "payload": hex.EncodeToString(p)}, "%s: Pack of decoded %x panicked: %s", d.Name, p, pan)
		return true
	}
	b := dptx.New(d.Name)
	err2, pan := dptx.Unpack(b, p2)
	c := map[string]string{"type": d.Name, "payload": hex.EncodeToString(p), "reencoded": hex.EncodeToString(p2), "value": dptx.Show(a)}
	if pan != "" {
		r.Violate("decode.panic", map[string]string{"type": d.Name}, c, "%s: Unpack of re-encoding %x panicked: %s", d.Name, p2, pan)
		return true
	}
	if err2 != nil {
		atomic.AddInt64(&s.drift, 1)
		r.Violate("drift.rejected", map[string]string{"type": d.Name}, c, "%s: payload %x decodes to %s, re-encodes to %x which the decoder rejects: %v", d.Name, p, dptx.Show(a), p2, err2)
		return true
	}
	if !dptx.Equal(a, b) {
		atomic.AddInt64(&s.drift, 1)
		c["value2"] = dptx.Show(b)
		tag, attrs := classifyDrift(d, p, p2, a, b)
		if tag != "drift.value" {
			atomic.AddInt64(&s.knownDrift, 1)
		}
		r.Violate(tag, attrs, c, "%s: payload %x decodes to %s, re-encodes to %x which decodes to %s", d.Name, p, dptx.Show(a), p2, dptx.Show(b))
		return true
	}
	// history independence: decoding p into an instance that has decoded other
	// telegrams before must give the same value as decoding it into a fresh one
	// (an application keeps one variable per group address and decodes into it)
	if n := atomic.AddInt64(&histCtr, 1); n%16 == 0 || (n%2 == 0 && reflect.ValueOf(a).Elem().Kind() == reflect.Struct) {
		// previous telegrams: payloads of this type that were accepted earlier in the run
		// (kept per type), plus the bitwise complement of p
		s.histMu.Lock()
		prevs := append([][]byte(nil), s.hist...)
		if len(prevs) > 3 {
			k := int(n) % (len(prevs) - 2)
			prevs = prevs[k : k+3]
		}
		if len(s.hist) < 8 {
			s.hist = append(s.hist, append([]byte(nil), p...))
		} else {
			s.hist[int(n/4)%8] = append([]byte(nil), p...)
		}
		s.histMu.Unlock()
		comp := make([]byte, len(p))
		for i := range comp {
			comp[i] = ^p[i]
		}
		if len(comp) > 1 {
			comp[0] = 0
		}
		prevs = append(prevs, comp)
		for _, prev := range prevs {
			h := dptx.New(d.Name)
			dptx.Unpack(h, prev) // may be rejected: the instance then keeps whatever it had
			if e3, p3 := dptx.Unpack(h, p); e3 == nil && p3 == "" && !dptx.Equal(a, h) {
				c["previous_payload"] = hex.EncodeToString(prev)
				c["value_in_reused_instance"] = dptx.Show(h)
				r.Violate("decode.history", map[string]string{"type": d.Name}, c, "%s: payload %x decodes to %s in a fresh instance but to %s in an instance that decoded %x before", d.Name, p, dptx.Show(a), dptx.Show(h), prev)
				break
			}
		}
	}
	if want, ok := d.ExpectedReencoding(p); ok {
		if hex.EncodeToString(want) != hex.EncodeToString(p2) {
			r.Violate("bytes.differ", map[string]string{"type": d.Name}, c, "%s: payload %x re-encodes to %x, expected %x (byte-identical format, reserved bits masked, documented replacements applied)", d.Name, p, p2, want)
		}
	}
	return true
}

// classifyDrift recognises the two known findings by their narrow signature.
func classifyDrift(d spec.DPT, p, p2 []byte, a, b interface{ Pack() []byte }) (string, map[string]string) {
	attrs := map[string]string{"type": d.Name}
	switch d.Family {
	case spec.F16:
		// signature: v' is the representable neighbour of v toward zero at the
		// re-encoded exponent, same sign (or zero), P' accepted.
		if len(p) == 3 && len(p2) == 3 {
			v := spec.F16Decode(p[1], p[2])
			m2, e2 := spec.F16Fields(p2[1], p2[2])
			v2 := 0.01 * float64(m2) * float64(uint(1)<<e2)
			step := 0.01 * float64(uint(1)<<e2)
			var neighbour float64
			if v > 0 {
				neighbour = v2 + step
			} else {
				neighbour = v2 - step
			}
			sameSign := (v > 0 && v2 >= 0) || (v < 0 && v2 <= 0)
			if sameSign && math.Abs(v2) < math.Abs(v) && math.Abs(neighbour-v) <= 1e-9*math.Max(1, math.Abs(v)) {
				return "drift.f16-one-step-toward-zero", map[string]string{"family": "9.xxx"}
			}
		}
	case spec.Str14:
		if d.ASCII {
			// signature: first differing position holds 0x80 in P (decoded to
			// U+0000, re-encoded as the terminator)
			for i := 1; i < 15; i++ {
				if p[i] == 0 {
					break
				}
				if p[i] == 0x80 {
					// all earlier bytes must re-encode faithfully
					ok := true
					for j := 1; j < i; j++ {
						if p2[j] != p[j]&0x7f {
							ok = false
						}
					}
					if ok && p2[i] == 0 {
						return "drift.str16000-byte-0x80", map[string]string{"type": "16.000"}
					}
					break
				}
			}
		}
	}
	return "drift.value", attrs
}

func parallel(n int, f func(shard, shards int)) {
	var wg sync.WaitGroup
	for i := 0; i < n; i++ {
		wg.Add(1)
		go func(i int) { defer wg.Done(); f(i, n) }(i)
	}
	wg.Wait()
}

func run(run *mon.Run) {
	r = run
	names := dptx.Names()
	W := runtime.NumCPU()
	r.Rule("for each registered type: exhaustive payloads for 1-, 2-, 3-byte types (2^8 / 2^8 / 2^16 value encodings with leading octet 0, plus leading-octet variants), exhaustive 2^24 (thorough) or all field combinations (quick) for 4-byte types, stratified 2^14 (quick) / 2^22 (thorough) encodings per 5-byte type and full 2^32 for 12.001, 13.001, 14.000 (thorough), structured sampling for 7-, 15-byte and variable types. Non-trivial = payload accepted by the decoder (the round trip actually ran); distinct = distinct (type, payload), enumerated without repetition")
	var total, nontriv int64
	sampleEvery := int64(7919)

	do := func(d spec.DPT, s *typeStats, p []byte) {
		n := atomic.AddInt64(&total, 1)
		if checkOne(d, s, p) {
			atomic.AddInt64(&nontriv, 1)
			if n%sampleEvery == 0 && r.WantSample() {
				a := dptx.New(d.Name)
				dptx.Unpack(a, p)
				r.Sample(map[string]string{"type": d.Name, "payload": hex.EncodeToString(p), "value": dptx.Show(a)})
			}
		}
	}

	for _, name := range names {
		d, err := spec.Lookup(name)
		if err != nil {
			r.Inconclusive("no reference row for registered type " + name + ": " + err.Error())
			continue
		}
		s := st(name)
		r.Crumb("C06 type=%s", name)
		switch {
		case d.Len == 1:
			for v := 0; v < 256; v++ {
				do(d, s, []byte{byte(v)})
			}
		case d.Len == 2:
			for _, lead := range []byte{0, 0x01, 0x80, 0xff} {
				for v := 0; v < 256; v++ {
					do(d, s, []byte{lead, byte(v)})
				}
			}
		case d.Len == 3:
			parallel(W, func(sh, n int) {
				for v := sh; v < 65536; v += n {
					do(d, s, []byte{0, byte(v >> 8), byte(v)})
					if v%251 == 0 {
						do(d, s, []byte{0xff, byte(v >> 8), byte(v)})
					}
				}
			})
		case d.Len == 4:
			if r.Thorough() {
				parallel(W, func(sh, n int) {
					for v := sh; v < 1<<24; v += n {
						do(d, s, []byte{0, byte(v >> 16), byte(v >> 8), byte(v)})
					}
				})
			} else {
				// all significant-field combinations (2^21 for time/date) plus
				// reserved-bit patterns on a subset
				m := d.IgnoreMask()
				parallel(W, func(sh, n int) {
					for v := sh; v < 1<<24; v += n {
						p := []byte{0, byte(v >> 16), byte(v >> 8), byte(v)}
						sig := p[1]&^m[1] == 0 && p[2]&^m[2] == 0 && p[3]&^m[3] == 0
						if sig || v%37 == 0 {
							do(d, s, p)
						}
					}
				})
			}
		case d.Len == 5:
			full := r.Thorough() && (name == "12.001" || name == "13.001" || name == "14.000")
			if full {
				sweep32(d, s, &total, &nontriv)
				break
			}
			bits := uint(r.Pick(14, 22))
			parallel(W, func(sh, n int) {
				cnt := 1 << bits
				for i := sh; i < cnt; i += n {
					// stratified: the top bits select sign/exponent stratum,
					// low bits are hashed to spread over the mantissa
					x := uint32(i) << (32 - bits)
					h := uint32(i)*2654435761 + 0x9e3779b9
					x |= h >> bits
					do(d, s, []byte{0, byte(x >> 24), byte(x >> 16), byte(x >> 8), byte(x)})
				}
				if sh == 0 {
					for _, x := range []uint32{0, 1, 0x7fffffff, 0x80000000, 0xffffffff, 0x7f800000, 0xff800000, 0x7fc00000, 0x7f800001, 0x00800000, 0x007fffff, 0x3f800000, 0xbf800000} {
						do(d, s, []byte{0, byte(x >> 24), byte(x >> 16), byte(x >> 8), byte(x)})
						do(d, s, []byte{0xa5, byte(x >> 24), byte(x >> 16), byte(x >> 8), byte(x)})
					}
				}
			})
		case d.Len == 7:
			corners := []byte{0, 1, 0x7f, 0x80, 0xfe, 0xff}
			for fl := 0; fl < 256; fl++ {
				for _, rsv := range []byte{0, 1, 0x80, 0xff} {
					for _, c1 := range corners {
						for _, c2 := range corners {
							do(d, s, []byte{0, c1, c2, c2, c1, rsv, byte(fl)})
							do(d, s, []byte{0, c2, c1, c1 ^ 0x55, c2 ^ 0xaa, rsv, byte(fl)})
						}
					}
				}
			}
			for i := 0; i < r.Pick(20000, 2000000); i++ {
				p := make([]byte, 7)
				r.Rand.Read(p)
				if i%2 == 0 {
					p[6] &= 0x0f
				}
				do(d, s, p)
			}
		case d.Len == 15:
			// every byte value at every position, alone and after a prefix
			for pos := 1; pos < 15; pos++ {
				for v := 0; v < 256; v++ {
					p := make([]byte, 15)
					p[pos] = byte(v)
					do(d, s, p)
					q := make([]byte, 15)
					for j := 1; j < pos; j++ {
						q[j] = byte('A' + j)
					}
					q[pos] = byte(v)
					do(d, s, q)
					q2 := append([]byte(nil), q...)
					for j := pos + 1; j < 15; j++ {
						q2[j] = byte('a' + j)
					}
					do(d, s, q2)
				}
			}
			for i := 0; i < r.Pick(20000, 2000000); i++ {
				p := make([]byte, 15)
				r.Rand.Read(p)
				switch i % 4 {
				case 0:
					for j := range p {
						p[j] &= 0x7f
					}
				case 1:
					p[1+r.Rand.Intn(14)] = 0
				case 2:
					for j := range p {
						if p[j] == 0x80 {
							p[j] = 0x81
						}
					}
				}
				do(d, s, p)
			}
		case d.Len == -1:
			for n := 0; n <= 40; n++ {
				for k := 0; k < r.Pick(200, 20000); k++ {
					p := make([]byte, n)
					r.Rand.Read(p)
					switch k % 4 {
					case 0:
						for j := range p {
							p[j] = byte("aäz€𝄞\x00"[r.Rand.Intn(6)])
						}
					case 1:
						if n > 0 {
							p[n-1] = 0
							p[0] = 0
						}
					}
					do(d, s, p)
				}
			}
		default:
			r.Inconclusive(fmt.Sprintf("type %s: payload length %d not handled", name, d.Len))
		}
	}
	r.Eval(total)
	r.DistinctAdd(nontriv)
	per := map[string]interface{}{}
	var acc, rej, dr, kd int64
	for n, s := range stats {
		acc += s.accepted
		rej += s.rejected
		dr += s.drift
		kd += s.knownDrift
		if s.drift > 0 {
			per[n] = map[string]int64{"accepted": s.accepted, "rejected": s.rejected, "drifting": s.drift, "drifting_matching_known_signature": s.knownDrift}
		}
	}
	r.Observe("types", len(names))
	r.Observe("payloads_accepted", acc)
	r.Observe("payloads_rejected", rej)
	r.Observe("payloads_drifting", dr)
	r.Observe("payloads_drifting_matching_known_signature", kd)
	r.Observe("drift_by_type", per)
	if acc == 0 {
		r.Broken("no payload was accepted by any decoder")
	}
	r.Exhaustive(false)
	r.Assume("reference table internal/spec/dpt.go (lengths, reserved-bit masks, documented replacements) written from 03_07_02")
}

// sweep32 enumerates all 2^32 encodings of one 5-byte type with a reused
// instance per worker (allocation-free fast path); any disagreement falls
// back to the full oracle for classification.
func sweep32(d spec.DPT, s *typeStats, total, nontriv *int64) {
	W := runtime.NumCPU()
	parallel(W, func(sh, n int) {
		a := dptx.New(d.Name)
		b := dptx.New(d.Name)
		p := make([]byte, 5)
		var cnt, acc int64
		for hi := sh; hi < 1<<16; hi += n {
			r.Crumb("C06 sweep32 type=%s hi=%#04x", d.Name, hi)
			for lo := 0; lo < 1<<16; lo++ {
				p[1], p[2], p[3], p[4] = byte(hi>>8), byte(hi), byte(lo>>8), byte(lo)
				cnt++
				if a.Unpack(p) != nil {
					atomic.AddInt64(&s.rejected, 1)
					continue
				}
				acc++
				p2 := a.Pack()
				if b.Unpack(p2) != nil || !dptx.Equal(a, b) || len(p2) != 5 || p2[0] != 0 || p2[1] != p[1] || p2[2] != p[2] || p2[3] != p[3] || p2[4] != p[4] {
					checkOne(d, s, append([]byte(nil), p...))
					atomic.AddInt64(&s.accepted, -1)
				}
			}
		}
		atomic.AddInt64(&s.accepted, acc)
		atomic.AddInt64(total, cnt)
		atomic.AddInt64(nontriv, acc)
	})
	r.Observe("full_2^32_sweep_"+d.Name, true)
}
