#!/usr/bin/env python3
# validates MANIFEST.json and every evidence file against the given schemas
import json,sys,glob,jsonschema
ok=True
m=json.load(open('/verif/MANIFEST.json')) if __import__('os').path.exists('/verif/MANIFEST.json') else None
if m is not None:
    try: jsonschema.validate(m,json.load(open('/root/.vp/MANIFEST.schema.json'))); print('MANIFEST ok, checks:',len(m['checks']))
    except Exception as e: ok=False; print('MANIFEST INVALID',e)
es=json.load(open('/root/.vp/EVIDENCE.schema.json'))
for f in sorted(glob.glob('/verif/evidence/*.json')):
    try:
        ev=json.load(open(f)); jsonschema.validate(ev,es); c=ev['coverage']
        print(f.split('/')[-1],'ok',ev['tier'],'evals',c.get('evaluations'),'distinct',c.get('distinct_nontrivial'),'vio',ev.get('violations'),'wall',round(ev['wall_s'],1))
    except Exception as e: ok=False; print(f,'INVALID',str(e)[:300])
sys.exit(0 if ok else 1)
