#!/bin/bash
# usage: ./check.sh <ID> <quick|thorough|replay> [replay-file]
# Rebuilds the property's monitor from /repo's current working tree (build tag
# verif; -race where the monitor needs it) and runs it. Exit 0 held, 1 violation,
# 2 no verdict (build failure, watchdog, nothing observed).
set -u
cd "$(dirname "$0")"
export GOFLAGS=-mod=mod GOPROXY=off GOSUMDB=off GOTOOLCHAIN=local CGO_ENABLED=${CGO_ENABLED:-1}
export VERIF_DIR="$(pwd)"
ID="$1"; MODE="${2:-quick}"
id=$(echo "$ID" | tr 'A-Z' 'a-z')
RACEFLAG=""
if [ -f "monitors/$id/RACE" ]; then RACEFLAG="-race"; fi
mkdir -p bin evidence/tmp replay
if ! go build -tags verif $RACEFLAG -o "bin/mon_$id" "./monitors/$id" 2> "evidence/tmp/$ID.build.log"; then
  echo "BUILD-FAILED property=$ID (see evidence/tmp/$ID.build.log)"
  head -20 "evidence/tmp/$ID.build.log"
  exit 2
fi
if [ "$MODE" = "replay" ]; then
  export VERIF_REPLAY="$3"
  exec "bin/mon_$id" quick
fi
exec "bin/mon_$id" "$MODE"
