// Package libx converts the abstract frames of internal/spec into library
// values and renders library values canonically (for comparisons that must
// not depend on pointer identity or nil-vs-empty slices).
package libx

import (
	"fmt"
	"net"
	"reflect"
	"sort"
	"strings"
	"time"

	"github.com/vapourismo/knx-go/knx/cemi"
	"github.com/vapourismo/knx-go/knx/knxnet"

	"verif/internal/spec"
)

// HostInfo converts an HPAI.
func HostInfo(h spec.HPAI) knxnet.HostInfo {
	return knxnet.HostInfo{Protocol: knxnet.Protocol(h.Proto), Address: knxnet.Address(h.IP), Port: knxnet.Port(h.Port)}
}

// HPAI converts back.
func HPAI(h knxnet.HostInfo) spec.HPAI {
	return spec.HPAI{Proto: uint8(h.Protocol), IP: [4]byte(h.Address), Port: uint16(h.Port)}
}

func latin1ToString(b []byte) string {
	rs := make([]rune, len(b))
	for i, c := range b {
		rs[i] = rune(c)
	}
	return string(rs)
}

// TPDU converts a transport unit.
func TPDU(t spec.TPDU) cemi.TransportUnit {
	if t.Control {
		return &cemi.ControlData{Numbered: t.Numbered, SeqNumber: t.Seq, Command: t.Cmd}
	}
	return &cemi.AppData{Numbered: t.Numbered, SeqNumber: t.Seq, Command: cemi.APCI(t.Cmd), Data: append([]byte(nil), t.Data...)}
}

// LData converts the L_Data core.
func LData(c *spec.Cemi) cemi.LData {
	var info cemi.Info
	if len(c.Info) > 0 {
		info = cemi.Info(append([]byte(nil), c.Info...))
	}
	return cemi.LData{Info: info, Control1: cemi.ControlField1(c.Ctrl1), Control2: cemi.ControlField2(c.Ctrl2),
		Source: cemi.IndividualAddr(c.Src), Destination: c.Dst, Data: TPDU(c.TPDU)}
}

func rawOrNil(b []byte) []byte {
	if len(b) == 0 {
		return nil
	}
	return append([]byte(nil), b...)
}

// Message converts a cEMI message.
func Message(c *spec.Cemi) cemi.Message {
	switch c.Code {
	case spec.McLDataReq:
		return &cemi.LDataReq{LData: LData(c)}
	case spec.McLDataInd:
		return &cemi.LDataInd{LData: LData(c)}
	case spec.McLDataCon:
		return &cemi.LDataCon{LData: LData(c)}
	case spec.McLRawReq:
		return &cemi.LRawReq{LRaw: cemi.LRaw(rawOrNil(c.Raw))}
	case spec.McLRawInd:
		return &cemi.LRawInd{LRaw: cemi.LRaw(rawOrNil(c.Raw))}
	case spec.McLRawCon:
		return &cemi.LRawCon{LRaw: cemi.LRaw(rawOrNil(c.Raw))}
	case spec.McLBusmonInd:
		m := cemi.LBusmonInd(rawOrNil(c.Raw))
		return &m
	default:
		return &cemi.UnsupportedMessage{Code: cemi.MessageCode(c.Code), Data: rawOrNil(c.Raw)}
	}
}

// DevInfo converts the device DIB.
func DevInfo(d spec.DevInfo) knxnet.DeviceInformationBlock {
	return knxnet.DeviceInformationBlock{
		Type: knxnet.DescriptionType(d.Type), Medium: knxnet.KNXMedium(d.Medium), Status: knxnet.DeviceStatus(d.Status),
		Source: cemi.IndividualAddr(d.Source), ProjectIdentifier: knxnet.ProjectInstallationIdentifier(d.Project),
		SerialNumber: knxnet.DeviceSerialNumber(d.Serial), RoutingMulticastAddress: knxnet.Address(d.Mcast),
		HardwareAddr: net.HardwareAddr(append([]byte(nil), d.MAC[:]...)), FriendlyName: latin1ToString(d.Name),
	}
}

// Families converts the service-families DIB.
func Families(typ uint8, fam [][2]uint8) knxnet.SupportedServicesDIB {
	s := knxnet.SupportedServicesDIB{Type: knxnet.DescriptionType(typ)}
	for _, f := range fam {
		s.Families = append(s.Families, knxnet.ServiceFamily{Type: knxnet.ServiceFamilyType(f[0]), Version: f[1]})
	}
	return s
}

// Service converts an encodable frame to the library's packable value; nil
// for services the library cannot encode (routing lost / busy).
func Service(f *spec.Frame) knxnet.ServicePackable {
	switch f.Service {
	case spec.SvcSearchReq:
		return &knxnet.SearchReq{HostInfo: HostInfo(f.Control)}
	case spec.SvcDescrReq:
		return &knxnet.DescriptionReq{HostInfo: HostInfo(f.Control)}
	case spec.SvcSearchRes:
		return &knxnet.SearchRes{Control: HostInfo(f.Control), DescriptionB: knxnet.DescriptionBlock{
			DeviceHardware: DevInfo(f.Dev), SupportedServices: Families(f.FamType, f.Families)}}
	case spec.SvcDescrRes:
		return &knxnet.DescriptionRes{DeviceHardware: DevInfo(f.Dev), SupportedServices: Families(f.FamType, f.Families)}
	case spec.SvcConnReq:
		return &knxnet.ConnReq{Control: HostInfo(f.Control), Tunnel: HostInfo(f.Tunnel), Layer: knxnet.TunnelLayer(f.Layer)}
	case spec.SvcConnRes:
		r := &knxnet.ConnRes{Channel: f.Channel, Status: knxnet.ErrCode(f.Status)}
		if f.Status == 0 {
			r.Control = HostInfo(f.Control)
		}
		return r
	case spec.SvcConnStateReq:
		return &knxnet.ConnStateReq{Channel: f.Channel, Status: knxnet.ErrCode(f.Status), Control: HostInfo(f.Control)}
	case spec.SvcConnStateRes:
		return &knxnet.ConnStateRes{Channel: f.Channel, Status: knxnet.ErrCode(f.Status)}
	case spec.SvcDiscReq:
		return &knxnet.DiscReq{Channel: f.Channel, Status: f.Status, Control: HostInfo(f.Control)}
	case spec.SvcDiscRes:
		return &knxnet.DiscRes{Channel: f.Channel, Status: f.Status}
	case spec.SvcTunnelReq:
		return &knxnet.TunnelReq{Channel: f.Channel, SeqNumber: f.Seq, Payload: Message(f.Cemi)}
	case spec.SvcTunnelRes:
		return &knxnet.TunnelRes{Channel: f.Channel, SeqNumber: f.Seq, Status: knxnet.ErrCode(f.Status)}
	case spec.SvcRoutingInd:
		return &knxnet.RoutingInd{Payload: Message(f.Cemi)}
	case 0:
		return &knxnet.UnknownService{Data: rawOrNil(f.Raw)}
	}
	return nil
}

// Inbound converts any frame (including routing lost / busy) to the value the
// library's decoder would hand to a client.
func Inbound(f *spec.Frame) knxnet.Service {
	switch f.Service {
	case spec.SvcRoutingLost:
		return &knxnet.RoutingLost{Status: knxnet.DeviceState(f.DevState), Count: f.Count}
	case spec.SvcRoutingBusy:
		return &knxnet.RoutingBusy{Status: knxnet.DeviceState(f.DevState), WaitTime: time.Duration(f.WaitMs) * time.Millisecond, Control: f.BusyCtl}
	}
	return Service(f)
}

// Dump renders v canonically: dynamic types by name, pointers followed,
// nil and empty slices alike, unexported fields included.
func Dump(v interface{}) string {
	var sb strings.Builder
	dump(&sb, reflect.ValueOf(v), 0)
	return sb.String()
}

func dump(sb *strings.Builder, v reflect.Value, depth int) {
	if depth > 12 {
		sb.WriteString("<deep>")
		return
	}
	if !v.IsValid() {
		sb.WriteString("<nil>")
		return
	}
	switch v.Kind() {
	case reflect.Ptr, reflect.Interface:
		if v.IsNil() {
			sb.WriteString("<nil>")
			return
		}
		if v.Kind() == reflect.Ptr {
			sb.WriteString("&")
		}
		dump(sb, v.Elem(), depth+1)
	case reflect.Struct:
		sb.WriteString(v.Type().String())
		sb.WriteString("{")
		for i := 0; i < v.NumField(); i++ {
			if i > 0 {
				sb.WriteString(" ")
			}
			sb.WriteString(v.Type().Field(i).Name)
			sb.WriteString(":")
			dump(sb, v.Field(i), depth+1)
		}
		sb.WriteString("}")
	case reflect.Slice, reflect.Array:
		sb.WriteString(v.Type().String())
		if v.Type().Elem().Kind() == reflect.Uint8 {
			sb.WriteString("[")
			for i := 0; i < v.Len(); i++ {
				fmt.Fprintf(sb, "%02x", v.Index(i).Uint())
			}
			sb.WriteString("]")
			return
		}
		sb.WriteString("[")
		for i := 0; i < v.Len(); i++ {
			if i > 0 {
				sb.WriteString(" ")
			}
			dump(sb, v.Index(i), depth+1)
		}
		sb.WriteString("]")
	case reflect.Map:
		keys := v.MapKeys()
		sort.Slice(keys, func(i, j int) bool { return fmt.Sprint(keys[i]) < fmt.Sprint(keys[j]) })
		sb.WriteString("map[")
		for _, k := range keys {
			dump(sb, k, depth+1)
			sb.WriteString(":")
			dump(sb, v.MapIndex(k), depth+1)
			sb.WriteString(" ")
		}
		sb.WriteString("]")
	case reflect.String:
		fmt.Fprintf(sb, "%q", v.String())
	case reflect.Bool:
		fmt.Fprintf(sb, "%v", v.Bool())
	case reflect.Int, reflect.Int8, reflect.Int16, reflect.Int32, reflect.Int64:
		fmt.Fprintf(sb, "%s(%d)", v.Type().String(), v.Int())
	case reflect.Uint, reflect.Uint8, reflect.Uint16, reflect.Uint32, reflect.Uint64, reflect.Uintptr:
		fmt.Fprintf(sb, "%s(%d)", v.Type().String(), v.Uint())
	case reflect.Float32, reflect.Float64:
		fmt.Fprintf(sb, "%v", v.Float())
	default:
		fmt.Fprintf(sb, "<%s>", v.Kind())
	}
}
