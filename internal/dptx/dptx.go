// Package dptx holds reflection helpers shared by the datapoint monitors.
package dptx

import (
	"fmt"
	"math"
	"reflect"
	"sort"
	"strconv"
	"strings"

	"github.com/vapourismo/knx-go/knx/dpt"
)

// Names returns the registry names sorted numerically.
func Names() []string {
	ns := dpt.ListSupportedTypes()
	sort.Slice(ns, func(i, j int) bool {
		a, b := strings.Split(ns[i], "."), strings.Split(ns[j], ".")
		a0, _ := strconv.Atoi(a[0])
		b0, _ := strconv.Atoi(b[0])
		if a0 != b0 {
			return a0 < b0
		}
		if len(a) > 1 && len(b) > 1 {
			a1, _ := strconv.Atoi(a[1])
			b1, _ := strconv.Atoi(b[1])
			if a1 != b1 {
				return a1 < b1
			}
		}
		return ns[i] < ns[j]
	})
	return ns
}

// New produces a fresh instance or nil.
func New(name string) dpt.Datapoint {
	d, ok := dpt.Produce(name)
	if !ok {
		return nil
	}
	return d
}

// Equal compares two instances bitwise (floats by bit pattern).
func Equal(a, b dpt.Datapoint) bool {
	va, vb := reflect.ValueOf(a).Elem(), reflect.ValueOf(b).Elem()
	if va.Type() != vb.Type() {
		return false
	}
	switch va.Kind() {
	case reflect.Float32, reflect.Float64:
		return math.Float32bits(float32(va.Float())) == math.Float32bits(float32(vb.Float()))
	}
	return reflect.DeepEqual(va.Interface(), vb.Interface())
}

// Show renders the value for witnesses.
func Show(a dpt.Datapoint) string {
	v := reflect.ValueOf(a).Elem()
	switch v.Kind() {
	case reflect.Float32:
		f := float32(v.Float())
		return fmt.Sprintf("%v (bits %#08x)", f, math.Float32bits(f))
	case reflect.String:
		return fmt.Sprintf("%q", v.String())
	}
	return fmt.Sprintf("%+v", v.Interface())
}

// Kind returns the reflect kind of the value type.
func Kind(a dpt.Datapoint) reflect.Kind { return reflect.ValueOf(a).Elem().Kind() }

// Float returns the float value (Float32 kinds).
func Float(a dpt.Datapoint) float64 { return reflect.ValueOf(a).Elem().Float() }

// SetFloat sets a float32-kinded datapoint.
func SetFloat(a dpt.Datapoint, f float32) { reflect.ValueOf(a).Elem().SetFloat(float64(f)) }

// SetUint sets an unsigned-kinded datapoint.
func SetUint(a dpt.Datapoint, u uint64) { reflect.ValueOf(a).Elem().SetUint(u) }

// SetInt sets a signed-kinded datapoint.
func SetInt(a dpt.Datapoint, i int64) { reflect.ValueOf(a).Elem().SetInt(i) }

// SetBool sets a bool-kinded datapoint.
func SetBool(a dpt.Datapoint, b bool) { reflect.ValueOf(a).Elem().SetBool(b) }

// SetString sets a string-kinded datapoint.
func SetString(a dpt.Datapoint, s string) { reflect.ValueOf(a).Elem().SetString(s) }

// Uint / Int / Bool / String getters.
func Uint(a dpt.Datapoint) uint64   { return reflect.ValueOf(a).Elem().Uint() }
func Int(a dpt.Datapoint) int64     { return reflect.ValueOf(a).Elem().Int() }
func Bool(a dpt.Datapoint) bool     { return reflect.ValueOf(a).Elem().Bool() }
func String(a dpt.Datapoint) string { return reflect.ValueOf(a).Elem().String() }

// Field returns a struct field by name as uint64/bool.
func Field(a dpt.Datapoint, name string) reflect.Value {
	return reflect.ValueOf(a).Elem().FieldByName(name)
}

// Unpack calls d.Unpack guarding panics.
func Unpack(d dpt.Datapoint, p []byte) (err error, pan string) {
	defer func() {
		if r := recover(); r != nil {
			pan = fmt.Sprint(r)
		}
	}()
	return d.Unpack(p), ""
}

// Pack calls d.Pack guarding panics.
func Pack(d dpt.Datapoint) (out []byte, pan string) {
	defer func() {
		if r := recover(); r != nil {
			pan = fmt.Sprint(r)
		}
	}()
	return d.Pack(), ""
}

// Meta calls String and Unit guarding panics.
func Meta(d dpt.Datapoint) (pan string) {
	defer func() {
		if r := recover(); r != nil {
			pan = fmt.Sprint(r)
		}
	}()
	_ = d.String()
	_ = d.Unit()
	return ""
}
