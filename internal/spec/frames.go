package spec

// Independent byte-level description of KNXnet/IP frames and cEMI messages,
// written from the KNX specification (03_08_02 core, 03_08_04 tunnelling,
// 03_08_05 routing, 03_06_03 cEMI). It shares no code with the library.

// Service identifiers.
const (
	SvcSearchReq    = 0x0201
	SvcSearchRes    = 0x0202
	SvcDescrReq     = 0x0203
	SvcDescrRes     = 0x0204
	SvcConnReq      = 0x0205
	SvcConnRes      = 0x0206
	SvcConnStateReq = 0x0207
	SvcConnStateRes = 0x0208
	SvcDiscReq      = 0x0209
	SvcDiscRes      = 0x020a
	SvcTunnelReq    = 0x0420
	SvcTunnelRes    = 0x0421
	SvcRoutingInd   = 0x0530
	SvcRoutingLost  = 0x0531
	SvcRoutingBusy  = 0x0532
)

// Services lists the 15 service identifiers the library knows.
var Services = []uint16{SvcSearchReq, SvcSearchRes, SvcDescrReq, SvcDescrRes, SvcConnReq, SvcConnRes,
	SvcConnStateReq, SvcConnStateRes, SvcDiscReq, SvcDiscRes, SvcTunnelReq, SvcTunnelRes,
	SvcRoutingInd, SvcRoutingLost, SvcRoutingBusy}

// cEMI message codes.
const (
	McLRawReq    = 0x10
	McLDataReq   = 0x11
	McLDataInd   = 0x29
	McLBusmonInd = 0x2B
	McLRawInd    = 0x2D
	McLDataCon   = 0x2E
	McLRawCon    = 0x2F
)

// MessageCodes lists the 7 codes the library knows.
var MessageCodes = []uint8{McLRawReq, McLDataReq, McLDataInd, McLBusmonInd, McLRawInd, McLDataCon, McLRawCon}

// IsLData reports whether the code is one of the three L_Data codes.
func IsLData(code uint8) bool { return code == McLDataReq || code == McLDataInd || code == McLDataCon }

// HPAI is a host protocol address information structure (8 octets).
type HPAI struct {
	Proto uint8
	IP    [4]byte
	Port  uint16
}

// TPDU is the transport unit of an L_Data frame.
type TPDU struct {
	Control  bool  // control unit (TPCI bit 7)
	Numbered bool  // TPCI bit 6
	Seq      uint8 // TPCI bits 5..2
	Cmd      uint8 // data unit: APCI 0..15; control unit: 0..3
	Data     []byte
}

// Cemi is one cEMI message.
type Cemi struct {
	Code uint8
	// L_Data
	Info  []byte
	Ctrl1 uint8
	Ctrl2 uint8
	Src   uint16
	Dst   uint16
	TPDU  TPDU
	// L_Raw, L_Busmon, unsupported codes: the bytes after the code
	Raw []byte
}

// DevInfo is the device-information DIB (54 octets).
type DevInfo struct {
	Type    uint8
	Medium  uint8
	Status  uint8
	Source  uint16
	Project uint16
	Serial  [6]byte
	Mcast   [4]byte
	MAC     [6]byte
	Name    []byte // Latin-1 bytes, at most 29
}

// Frame is one KNXnet/IP frame.
type Frame struct {
	Service  uint16
	Channel  uint8
	Seq      uint8
	Status   uint8
	Control  HPAI
	Tunnel   HPAI
	Layer    uint8
	Cemi     *Cemi
	Dev      DevInfo
	FamType  uint8
	Families [][2]uint8
	// routing lost / busy
	DevState uint8
	Count    uint16
	WaitMs   uint16
	BusyCtl  uint16
	// unknown service
	Raw []byte
}

func be16(b []byte, v uint16) []byte { return append(b, byte(v>>8), byte(v)) }

// EncodeHPAI appends the 8 octets of an HPAI.
func EncodeHPAI(b []byte, h HPAI) []byte {
	b = append(b, 8, h.Proto)
	b = append(b, h.IP[:]...)
	return be16(b, h.Port)
}

// EncodeTPDU appends length octet + TPCI/APCI + data.
func EncodeTPDU(b []byte, t TPDU) []byte {
	if t.Control {
		o := byte(0x80) | t.Cmd&3
		if t.Numbered {
			o |= 0x40 | (t.Seq&15)<<2
		}
		return append(b, 0, o)
	}
	d := t.Data
	if len(d) == 0 {
		d = []byte{0}
	}
	if len(d) > 255 {
		d = d[:255]
	}
	o := (t.Cmd >> 2) & 3
	if t.Numbered {
		o |= 0x40 | (t.Seq&15)<<2
	}
	b = append(b, byte(len(d)), o, (t.Cmd&3)<<6|d[0]&0x3f)
	return append(b, d[1:]...)
}

// EncodeCemi appends the message code and body.
func EncodeCemi(b []byte, c *Cemi) []byte {
	b = append(b, c.Code)
	if !IsLData(c.Code) {
		return append(b, c.Raw...)
	}
	info := c.Info
	if len(info) > 255 {
		info = info[:255]
	}
	b = append(b, byte(len(info)))
	b = append(b, info...)
	b = append(b, c.Ctrl1, c.Ctrl2)
	b = be16(b, c.Src)
	b = be16(b, c.Dst)
	return EncodeTPDU(b, c.TPDU)
}

// EncodeDevInfo appends the 54-octet device information DIB.
func EncodeDevInfo(b []byte, d DevInfo) []byte {
	b = append(b, 54, d.Type, d.Medium, d.Status)
	b = be16(b, d.Source)
	b = be16(b, d.Project)
	b = append(b, d.Serial[:]...)
	b = append(b, d.Mcast[:]...)
	b = append(b, d.MAC[:]...)
	name := d.Name
	if len(name) > 29 {
		name = name[:29]
	}
	var n [30]byte
	copy(n[:], name)
	return append(b, n[:]...)
}

// EncodeFamilies appends the supported-service-families DIB.
func EncodeFamilies(b []byte, typ uint8, fam [][2]uint8) []byte {
	b = append(b, byte(2+2*len(fam)), typ)
	for _, f := range fam {
		b = append(b, f[0], f[1])
	}
	return b
}

// Body returns the service body (without the 6-octet header).
func (f *Frame) Body() []byte {
	var b []byte
	switch f.Service {
	case SvcSearchReq, SvcDescrReq:
		b = EncodeHPAI(b, f.Control)
	case SvcSearchRes:
		b = EncodeHPAI(b, f.Control)
		b = EncodeDevInfo(b, f.Dev)
		b = EncodeFamilies(b, f.FamType, f.Families)
	case SvcDescrRes:
		b = EncodeDevInfo(b, f.Dev)
		b = EncodeFamilies(b, f.FamType, f.Families)
	case SvcConnReq:
		b = EncodeHPAI(b, f.Control)
		b = EncodeHPAI(b, f.Tunnel)
		b = append(b, 4, 4, f.Layer, 0)
	case SvcConnRes:
		b = append(b, f.Channel, f.Status)
		if f.Status == 0 {
			b = EncodeHPAI(b, f.Control)
			b = append(b, 4, 4, 0, 0)
		}
	case SvcConnStateReq, SvcDiscReq:
		b = append(b, f.Channel, f.Status)
		b = EncodeHPAI(b, f.Control)
	case SvcConnStateRes, SvcDiscRes:
		b = append(b, f.Channel, f.Status)
	case SvcTunnelReq:
		b = append(b, 4, f.Channel, f.Seq, 0)
		b = EncodeCemi(b, f.Cemi)
	case SvcTunnelRes:
		b = append(b, 4, f.Channel, f.Seq, f.Status)
	case SvcRoutingInd:
		b = EncodeCemi(b, f.Cemi)
	case SvcRoutingLost:
		b = append(b, 4, f.DevState)
		b = be16(b, f.Count)
	case SvcRoutingBusy:
		b = append(b, 6, f.DevState)
		b = be16(b, f.WaitMs)
		b = be16(b, f.BusyCtl)
	default:
		b = append(b, f.Raw...)
	}
	return b
}

// Encode returns the complete frame: header 06 10 <service> <total length> + body.
func (f *Frame) Encode() []byte {
	body := f.Body()
	b := []byte{6, 0x10, byte(f.Service >> 8), byte(f.Service), byte((len(body) + 6) >> 8), byte(len(body) + 6)}
	return append(b, body...)
}

// Header wraps an arbitrary body under a service id with a correct header.
func Header(service uint16, body []byte) []byte {
	b := []byte{6, 0x10, byte(service >> 8), byte(service), byte((len(body) + 6) >> 8), byte(len(body) + 6)}
	return append(b, body...)
}

// LenOffsets returns the byte offsets (into Encode()'s output) of every
// embedded length-like octet of the frame: header size, total length (2),
// HPAI lengths, DIB lengths, CRI/CRD length, connection header length,
// additional-info length, TPDU length.
func (f *Frame) LenOffsets() []int {
	offs := []int{0, 4, 5}
	p := 6
	cemiOffs := func(p int, c *Cemi) {
		if c == nil || !IsLData(c.Code) {
			return
		}
		offs = append(offs, p+1) // info length
		il := len(c.Info)
		if il > 255 {
			il = 255
		}
		offs = append(offs, p+2+il+6) // TPDU length
	}
	switch f.Service {
	case SvcSearchReq, SvcDescrReq:
		offs = append(offs, p)
	case SvcSearchRes:
		offs = append(offs, p, p+8, p+8+54)
	case SvcDescrRes:
		offs = append(offs, p, p+54)
	case SvcConnReq:
		offs = append(offs, p, p+8, p+16)
	case SvcConnRes:
		if f.Status == 0 {
			offs = append(offs, p+2, p+10)
		}
	case SvcConnStateReq, SvcDiscReq:
		offs = append(offs, p+2)
	case SvcTunnelReq:
		offs = append(offs, p)
		cemiOffs(p+4, f.Cemi)
	case SvcTunnelRes:
		offs = append(offs, p)
	case SvcRoutingInd:
		cemiOffs(p, f.Cemi)
	case SvcRoutingLost, SvcRoutingBusy:
		offs = append(offs, p)
	}
	return offs
}

// ---------------------------------------------------------------- light parser

// Parsed is what the harness needs to know about a frame on the wire.
type Parsed struct {
	OK      bool // header well-formed and total length == len
	Service uint16
	Channel uint8
	Seq     uint8
	Status  uint8
	Control HPAI
	Tunnel  HPAI
	Layer   uint8
	Cemi    []byte // cEMI bytes of a tunnelling request / routing indication
}

func parseHPAI(b []byte) (HPAI, bool) {
	if len(b) < 8 || b[0] != 8 {
		return HPAI{}, false
	}
	var h HPAI
	h.Proto = b[1]
	copy(h.IP[:], b[2:6])
	h.Port = uint16(b[6])<<8 | uint16(b[7])
	return h, true
}

// Parse reads the fields the protocol monitors look at.
func Parse(b []byte) Parsed {
	var p Parsed
	if len(b) < 6 || b[0] != 6 || b[1] != 0x10 {
		return p
	}
	p.Service = uint16(b[2])<<8 | uint16(b[3])
	if int(b[4])<<8|int(b[5]) != len(b) {
		return p
	}
	body := b[6:]
	switch p.Service {
	case SvcConnReq:
		if len(body) != 20 {
			return p
		}
		var ok1, ok2 bool
		p.Control, ok1 = parseHPAI(body)
		p.Tunnel, ok2 = parseHPAI(body[8:])
		if !ok1 || !ok2 || body[16] != 4 || body[17] != 4 || body[19] != 0 {
			return p
		}
		p.Layer = body[18]
	case SvcConnRes:
		if len(body) < 2 {
			return p
		}
		p.Channel, p.Status = body[0], body[1]
	case SvcConnStateReq, SvcDiscReq:
		if len(body) != 10 {
			return p
		}
		p.Channel, p.Status = body[0], body[1]
		var ok bool
		if p.Control, ok = parseHPAI(body[2:]); !ok {
			return p
		}
	case SvcConnStateRes, SvcDiscRes:
		if len(body) != 2 {
			return p
		}
		p.Channel, p.Status = body[0], body[1]
	case SvcTunnelReq:
		if len(body) < 5 || body[0] != 4 || body[3] != 0 {
			return p
		}
		p.Channel, p.Seq = body[1], body[2]
		p.Cemi = body[4:]
	case SvcTunnelRes:
		if len(body) != 4 || body[0] != 4 {
			return p
		}
		p.Channel, p.Seq, p.Status = body[1], body[2], body[3]
	case SvcRoutingInd:
		if len(body) < 1 {
			return p
		}
		p.Cemi = body
	case SvcSearchReq, SvcDescrReq:
		if len(body) != 8 {
			return p
		}
		var ok bool
		if p.Control, ok = parseHPAI(body); !ok {
			return p
		}
	}
	p.OK = true
	return p
}

// ParsedLData is the independent view of an L_Data cEMI message.
type ParsedLData struct {
	OK    bool
	Code  uint8
	Info  []byte
	Ctrl1 uint8
	Ctrl2 uint8
	Src   uint16
	Dst   uint16
	TPDU  TPDU
}

// ParseLData reads an L_Data message (code + body) strictly.
func ParseLData(b []byte) ParsedLData {
	var p ParsedLData
	if len(b) < 2 {
		return p
	}
	p.Code = b[0]
	il := int(b[1])
	if len(b) < 2+il+6+2 {
		return p
	}
	p.Info = append([]byte(nil), b[2:2+il]...)
	q := b[2+il:]
	p.Ctrl1, p.Ctrl2 = q[0], q[1]
	p.Src = uint16(q[2])<<8 | uint16(q[3])
	p.Dst = uint16(q[4])<<8 | uint16(q[5])
	t := q[6:]
	if t[1]&0x80 != 0 {
		p.TPDU = TPDU{Control: true, Numbered: t[1]&0x40 != 0, Seq: (t[1] >> 2) & 15, Cmd: t[1] & 3}
		p.OK = len(t) == 2 && t[0] == 0
		return p
	}
	n := int(t[0])
	if n < 1 || len(t) != n+2 {
		return p
	}
	d := append([]byte(nil), t[2:]...)
	cmd := (t[1]&3)<<2 | d[0]>>6
	d[0] &= 0x3f
	p.TPDU = TPDU{Numbered: t[1]&0x40 != 0, Seq: (t[1] >> 2) & 15, Cmd: cmd, Data: d}
	p.OK = true
	return p
}
