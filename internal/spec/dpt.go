// Package spec holds references written from the KNX specification,
// independent of the library's codecs: the datapoint-type table, the
// KNXnet/IP + cEMI byte layouts and the address grammar.
package spec

import (
	"fmt"
	"math"
	"strconv"
	"strings"
	"time"
)

// Family of wire formats (03_07_02 Datapoint Types).
type Family int

const (
	B1        Family = iota // 1 bit in the low bits of a single octet
	U8                      // unsigned 8 bit
	U8Scaled                // unsigned 8 bit scaled to a float range
	U8Scene                 // 17.001: 6 bit scene number
	U8SceneCt               // 18.001: control bit + 6 bit scene number
	V8                      // signed 8 bit
	U16                     // unsigned 16 bit
	V16                     // signed 16 bit
	V16Scaled               // signed 16 bit, fixed-point
	F16                     // KNX 2-octet float
	Time                    // 10.001
	Date                    // 11.001
	U32                     // unsigned 32 bit
	V32                     // signed 32 bit
	F32                     // IEEE-754 single
	Str14                   // 14 character string (16.xxx)
	UTF8                    // 28.001 variable length
	RGB                     // 232.600
	XYY                     // 242.600
	RGBW                    // 251.600
)

// DPT describes one datapoint type.
type DPT struct {
	Name   string
	Main   int
	Sub    int
	Family Family
	// Len is the payload length including the leading octet (1 for sub-byte
	// types); -1 = variable.
	Len int
	// Lo, Hi: documented range of float-valued types.
	Lo, Hi float64
	// Scale: value = raw * Scale for scaled integer types.
	Scale float64
	// ASCII: 16.000 (7 bit) vs 16.001 (Latin-1)
	ASCII bool
	// ByteIdentical: wire format is an exact integer / bit field /
	// enumeration / character / IEEE format.
	ByteIdentical bool
}

// f16Range is the documented range of each 9.xxx type.
var f16Range = map[int][2]float64{
	1: {-273, 670760}, 2: {-670760, 670760}, 3: {-670760, 670760},
	4: {0, 670760}, 5: {0, 670760}, 6: {0, 670760}, 7: {0, 670760}, 8: {0, 670760},
	9: {-670760, 670760}, 10: {-670760, 670760}, 11: {-670760, 670760},
	20: {-670760, 670760}, 21: {-670760, 670760}, 22: {-670760, 670760}, 23: {-670760, 670760},
	24: {-670760, 670760}, 25: {-670760, 670760}, 26: {-670760, 670760},
	27: {-459.6, 670760}, 28: {0, 670760}, 29: {0, 670760}, 30: {0, 670760},
}

// Lookup returns the reference row for a registry name such as "9.001".
func Lookup(name string) (DPT, error) {
	parts := strings.Split(name, ".")
	if len(parts) != 2 {
		return DPT{}, fmt.Errorf("name %q is not main.sub", name)
	}
	mainN, err1 := strconv.Atoi(parts[0])
	sub, err2 := strconv.Atoi(parts[1])
	if err1 != nil || err2 != nil {
		return DPT{}, fmt.Errorf("name %q is not numeric", name)
	}
	d := DPT{Name: name, Main: mainN, Sub: sub}
	switch mainN {
	case 1:
		d.Family, d.Len, d.ByteIdentical = B1, 1, true
	case 5:
		switch sub {
		case 1:
			d.Family, d.Len, d.Lo, d.Hi, d.Scale = U8Scaled, 2, 0, 100, 100.0/255
		case 3:
			d.Family, d.Len, d.Lo, d.Hi, d.Scale = U8Scaled, 2, 0, 360, 360.0/255
		default:
			d.Family, d.Len, d.ByteIdentical = U8, 2, true
		}
	case 6:
		d.Family, d.Len, d.ByteIdentical = V8, 2, true
	case 7:
		d.Family, d.Len, d.ByteIdentical = U16, 3, true
	case 8:
		switch sub {
		case 3, 10:
			d.Family, d.Len, d.Scale, d.Lo, d.Hi = V16Scaled, 3, 0.01, -327.68, 327.67
		case 4:
			d.Family, d.Len, d.Scale, d.Lo, d.Hi = V16Scaled, 3, 0.1, -3276.8, 3276.7
		default:
			d.Family, d.Len, d.ByteIdentical = V16, 3, true
		}
	case 9:
		rg, ok := f16Range[sub]
		if !ok {
			return d, fmt.Errorf("no documented range known for %s", name)
		}
		d.Family, d.Len, d.Lo, d.Hi = F16, 3, rg[0], rg[1]
	case 10:
		d.Family, d.Len, d.ByteIdentical = Time, 4, true
	case 11:
		d.Family, d.Len, d.ByteIdentical = Date, 4, true
	case 12:
		d.Family, d.Len, d.ByteIdentical = U32, 5, true
	case 13:
		d.Family, d.Len, d.ByteIdentical = V32, 5, true
	case 14:
		d.Family, d.Len, d.ByteIdentical = F32, 5, true
	case 16:
		d.Family, d.Len, d.ByteIdentical = Str14, 15, true
		d.ASCII = sub == 0
	case 17:
		d.Family, d.Len, d.ByteIdentical = U8Scene, 2, true
	case 18:
		d.Family, d.Len, d.ByteIdentical = U8SceneCt, 2, true
	case 20:
		d.Family, d.Len, d.ByteIdentical = U8, 2, true
	case 28:
		d.Family, d.Len, d.ByteIdentical = UTF8, -1, true
	case 232:
		d.Family, d.Len, d.ByteIdentical = RGB, 4, true
	case 242:
		d.Family, d.Len, d.ByteIdentical = XYY, 7, true
	case 251:
		d.Family, d.Len, d.ByteIdentical = RGBW, 7, true
	default:
		return d, fmt.Errorf("no reference for main number %d", mainN)
	}
	return d, nil
}

// IgnoreMask returns, per payload octet, the bits the wire format defines
// (1 = significant). Octets/bits outside are reserved-and-ignored. For
// Str14/UTF8 see CompareBytes.
func (d DPT) IgnoreMask() []byte {
	switch d.Family {
	case B1:
		return []byte{0x01}
	case U8, U8Scaled, U8Scene, U8SceneCt, V8:
		return []byte{0, 0xff}
	case U16, V16, V16Scaled, F16:
		return []byte{0, 0xff, 0xff}
	case Time:
		return []byte{0, 0xff, 0x3f, 0x3f}
	case Date:
		return []byte{0, 0x1f, 0x0f, 0x7f}
	case U32, V32, F32:
		return []byte{0, 0xff, 0xff, 0xff, 0xff}
	case RGB:
		return []byte{0, 0xff, 0xff, 0xff}
	case XYY:
		return []byte{0, 0xff, 0xff, 0xff, 0xff, 0xff, 0x03}
	case RGBW:
		return []byte{0, 0xff, 0xff, 0xff, 0xff, 0x00, 0x0f}
	}
	return nil
}

// ExpectedReencoding computes, for byte-identical families, what a faithful
// decode-then-encode of payload p must produce (documented replacements
// applied). ok=false if the family has no such expectation.
func (d DPT) ExpectedReencoding(p []byte) (out []byte, ok bool) {
	if !d.ByteIdentical {
		return nil, false
	}
	switch d.Family {
	case Str14:
		out = make([]byte, 15)
		for i := 1; i < 15 && i < len(p); i++ {
			b := p[i]
			if d.ASCII {
				b &= 0x7f
			}
			if p[i] == 0 {
				break
			}
			out[i] = b
		}
		return out, true
	case UTF8:
		if len(p) < 2 {
			return nil, false
		}
		out = make([]byte, len(p))
		copy(out[1:], p[1:len(p)-1])
		return out, true
	}
	m := d.IgnoreMask()
	if m == nil || len(p) != len(m) {
		return nil, false
	}
	out = make([]byte, len(p))
	for i := range p {
		out[i] = p[i] & m[i]
	}
	switch d.Family {
	case U8Scene:
		if out[1] > 63 {
			out[1] = 63
		}
	case U8SceneCt:
		if !(out[1] <= 63 || (out[1] >= 128 && out[1] <= 191)) {
			out[1] = 63
		}
	case Date:
		if out[1] == 0 && out[2] == 0 && out[3] == 0 {
			out[1], out[2], out[3] = 1, 1, 90
		}
	}
	return out, true
}

// F16Decode is the reference decoder of the 2-octet float: 0.01 * m * 2^e.
func F16Decode(hi, lo byte) float64 {
	m := int(hi&7)<<8 | int(lo)
	if hi&0x80 != 0 {
		m -= 2048
	}
	e := (hi >> 3) & 15
	return 0.01 * float64(m) * float64(uint(1)<<e)
}

// F16Fields splits the two octets.
func F16Fields(hi, lo byte) (m int, e uint) {
	m = int(hi&7)<<8 | int(lo)
	if hi&0x80 != 0 {
		m -= 2048
	}
	return m, uint((hi >> 3) & 15)
}

// ValidDate reports whether y-m-d is a calendar date in 1990..2089.
func ValidDate(y, m, d int) bool {
	if y < 1990 || y > 2089 || m < 1 || m > 12 || d < 1 {
		return false
	}
	t := time.Date(y, time.Month(m), d, 0, 0, 0, 0, time.UTC)
	return t.Year() == y && int(t.Month()) == m && t.Day() == d
}

// DateFromWire converts the three significant octets.
func DateFromWire(day, month, yy byte) (y, m, d int, ok bool) {
	day &= 0x1f
	month &= 0x0f
	yy &= 0x7f
	if yy > 99 {
		return 0, 0, 0, false
	}
	if yy == 0 && month == 0 && day == 0 {
		return 1990, 1, 1, true
	}
	y = 2000 + int(yy)
	if yy >= 90 {
		y = 1900 + int(yy)
	}
	if !ValidDate(y, int(month), int(day)) {
		return 0, 0, 0, false
	}
	return y, int(month), int(day), true
}

// Float32Next returns the neighbouring float32 toward +inf / -inf.
func Float32Next(f float32, up bool) float32 {
	if up {
		return math.Nextafter32(f, float32(math.Inf(1)))
	}
	return math.Nextafter32(f, float32(math.Inf(-1)))
}
