package mon

import (
	"bytes"
	"fmt"
	"runtime"
	"strings"
	"sync"
	"sync/atomic"
	"time"
)

// Outcome of a guarded call.
type Outcome struct {
	Panic string // "" if none
	Hung  bool
}

// Guard runs fn on the calling goroutine with recover only (cheap path).
func Guard(fn func()) (panicMsg string) {
	defer func() {
		if p := recover(); p != nil {
			panicMsg = fmt.Sprint(p)
			if panicMsg == "" {
				panicMsg = "panic"
			}
		}
	}()
	fn()
	return ""
}

// GuardTimeout runs fn in a helper goroutine and waits at most d. A hang
// leaks the goroutine (the caller should stop after a few).
func GuardTimeout(d time.Duration, fn func()) Outcome {
	ch := make(chan string, 1)
	go func() { ch <- Guard(fn) }()
	t := time.NewTimer(d)
	defer t.Stop()
	select {
	case p := <-ch:
		return Outcome{Panic: p}
	case <-t.C:
		return Outcome{Hung: true}
	}
}

// Canary measures scheduling stalls: a goroutine sleeping 1 ms in a loop that
// records its worst oversleep.
type Canary struct {
	max  atomic.Int64
	stop chan struct{}
	wg   sync.WaitGroup
	mu   sync.Mutex
	big  []stallRec // oversleeps above 2 ms, with the time they ended
}

type stallRec struct {
	at   time.Time
	over time.Duration
}

// StallSince returns the worst oversleep that ended after t.
func (c *Canary) StallSince(t time.Time) time.Duration {
	c.mu.Lock()
	defer c.mu.Unlock()
	var w time.Duration
	for i := len(c.big) - 1; i >= 0; i-- {
		if c.big[i].at.Before(t) {
			break
		}
		if c.big[i].over > w {
			w = c.big[i].over
		}
	}
	return w
}

// StartCanary starts measuring.
func StartCanary() *Canary {
	c := &Canary{stop: make(chan struct{})}
	c.wg.Add(1)
	go func() {
		defer c.wg.Done()
		for {
			select {
			case <-c.stop:
				return
			default:
			}
			t0 := time.Now()
			time.Sleep(time.Millisecond)
			over := time.Since(t0) - time.Millisecond
			if over > 2*time.Millisecond {
				c.mu.Lock()
				c.big = append(c.big, stallRec{time.Now(), over})
				c.mu.Unlock()
			}
			for {
				cur := c.max.Load()
				if int64(over) <= cur || c.max.CompareAndSwap(cur, int64(over)) {
					break
				}
			}
		}
	}()
	return c
}

// Settle gives the canary goroutine a moment to record an oversleep that has
// just ended (after a freeze of the whole process the judging goroutine may
// run before the canary does). Call it before reading the canary when a time
// bound looks exceeded.
func (c *Canary) Settle() { time.Sleep(3 * time.Millisecond) }

// Max returns the worst oversleep so far.
func (c *Canary) Max() time.Duration { return time.Duration(c.max.Load()) }

// Reset clears the maximum.
func (c *Canary) Reset() { c.max.Store(0) }

// Stop ends the canary and returns the worst oversleep.
func (c *Canary) Stop() time.Duration {
	close(c.stop)
	c.wg.Wait()
	return c.Max()
}

// Slack is the allowance added to upper time bounds: 3*stall + 20ms.
func (c *Canary) Slack() time.Duration { return 3*c.Max() + 20*time.Millisecond }

// LibGoroutines returns the stacks of goroutines that have a frame whose
// function name contains one of the needles (e.g. "knx-go/knx.").
func LibGoroutines(needles ...string) []string {
	buf := make([]byte, 1<<20)
	for {
		n := runtime.Stack(buf, true)
		if n < len(buf) {
			buf = buf[:n]
			break
		}
		buf = make([]byte, 2*len(buf))
	}
	var out []string
	for _, g := range bytes.Split(buf, []byte("\n\n")) {
		s := string(g)
		for _, nd := range needles {
			if strings.Contains(s, nd) {
				out = append(out, s)
				break
			}
		}
	}
	return out
}

// WaitNoLibGoroutines polls until no goroutine matches or the bound passes;
// it returns the remaining stacks.
func WaitNoLibGoroutines(bound time.Duration, filter func(stack string) bool, needles ...string) []string {
	deadline := time.Now().Add(bound)
	for {
		gs := LibGoroutines(needles...)
		var rem []string
		for _, g := range gs {
			if filter == nil || filter(g) {
				rem = append(rem, g)
			}
		}
		if len(rem) == 0 || time.Now().After(deadline) {
			return rem
		}
		time.Sleep(2 * time.Millisecond)
	}
}
