// Package mon is the shared run-time of every property monitor: parent/child
// process split (crash attribution), tier and seed handling, violation
// recording with known-finding matching, race-log parsing and the evidence
// writer.
//
// A monitor is a main package that calls mon.Main(id, level, body). The
// binary started by check.sh is the parent: it re-executes itself as a child
// (VERIF_CHILD=1) with stderr redirected to a file, waits for it under a
// generous watchdog, then merges the child's result file, the race-detector
// logs and the crash status into evidence/<id>.json and the verdict lines.
package mon

import (
	"encoding/json"
	"fmt"
	"hash/fnv"
	"math/rand"
	"os"
	"os/exec"
	"path/filepath"
	"regexp"
	"runtime"
	"sort"
	"strconv"
	"strings"
	"sync"
	"syscall"
	"time"
)

// VerifDir is where evidence, replay and known findings live.
var VerifDir = func() string {
	if d := os.Getenv("VERIF_DIR"); d != "" {
		return d
	}
	return "/verif"
}()

// Violation is one refutation witness.
type Violation struct {
	// Tag classifies the witness (e.g. "drift.f16-toward-zero"); known
	// findings match on Tag plus Attrs.
	Tag    string            `json:"tag"`
	Attrs  map[string]string `json:"attrs,omitempty"`
	What   string            `json:"what"`
	Case   interface{}       `json:"case,omitempty"`
	Replay string            `json:"replay,omitempty"`
}

// Result is what the child hands to the parent.
type Result struct {
	ID           string                 `json:"id"`
	Tier         string                 `json:"tier"`
	Seed         int64                  `json:"seed"`
	Level        string                 `json:"level"`
	Evaluations  int64                  `json:"evaluations"`
	Distinct     int64                  `json:"distinct_nontrivial"`
	Rule         string                 `json:"rule"`
	Samples      []interface{}          `json:"samples"`
	Exhaustive   bool                   `json:"exhaustive"`
	Observed     map[string]interface{} `json:"observed"`
	Assumptions  []string               `json:"assumptions"`
	Violations   []Violation            `json:"violations"`
	Inconclusive []string               `json:"inconclusive"`
	Broken       string                 `json:"broken,omitempty"`
	WallS        float64                `json:"wall_s"`
	Complete     bool                   `json:"complete"`
}

// Run is the child's handle.
type Run struct {
	mu           sync.Mutex
	res          Result
	distinct     map[uint64]struct{}
	distinctEnum int64
	start        time.Time
	Rand         *rand.Rand
	vioCount     map[string]int
	unknownVio   int
	known        KnownSet
	knownLoaded  bool
	replayN      int
	crumb        *os.File
}

// Tier returns "quick" or "thorough".
func (r *Run) Tier() string { return r.res.Tier }

// Thorough reports whether the thorough tier runs.
func (r *Run) Thorough() bool { return r.res.Tier == "thorough" }

// Seed returns VERIF_SEED.
func (r *Run) Seed() int64 { return r.res.Seed }

// Pick returns q in the quick tier and t in the thorough tier.
func (r *Run) Pick(q, t int) int {
	if r.Thorough() {
		return t
	}
	return q
}

// Eval counts n executed cases.
func (r *Run) Eval(n int64) {
	r.mu.Lock()
	r.res.Evaluations += n
	r.mu.Unlock()
}

// Distinct records the signature of a non-trivial case.
func (r *Run) Distinct(sig uint64) {
	r.mu.Lock()
	r.distinct[sig] = struct{}{}
	r.mu.Unlock()
}

// DistinctAdd counts n cases that are distinct by construction (an
// enumeration without repetition), without storing their signatures.
func (r *Run) DistinctAdd(n int64) {
	r.mu.Lock()
	r.distinctEnum += n
	r.mu.Unlock()
}

// DistinctBytes hashes b (with a domain label) as a signature.
func (r *Run) DistinctBytes(label string, b []byte) {
	h := fnv.New64a()
	h.Write([]byte(label))
	h.Write([]byte{0})
	h.Write(b)
	r.Distinct(h.Sum64())
}

// DistinctStr hashes a string signature.
func (r *Run) DistinctStr(s string) {
	h := fnv.New64a()
	h.Write([]byte(s))
	r.Distinct(h.Sum64())
}

// Hash64 is a helper for monitors building their own signatures.
func Hash64(parts ...string) uint64 {
	h := fnv.New64a()
	for _, p := range parts {
		h.Write([]byte(p))
		h.Write([]byte{0})
	}
	return h.Sum64()
}

// Sample keeps up to 10 concrete cases.
func (r *Run) Sample(s interface{}) {
	r.mu.Lock()
	if len(r.res.Samples) < 10 {
		r.res.Samples = append(r.res.Samples, s)
	}
	r.mu.Unlock()
}

// WantSample reports whether more samples are wanted.
func (r *Run) WantSample() bool {
	r.mu.Lock()
	defer r.mu.Unlock()
	return len(r.res.Samples) < 10
}

// Rule sets the generation / non-triviality rule text.
func (r *Run) Rule(s string) { r.mu.Lock(); r.res.Rule = s; r.mu.Unlock() }

// Exhaustive marks the enumerated space as completed.
func (r *Run) Exhaustive(b bool) { r.mu.Lock(); r.res.Exhaustive = b; r.mu.Unlock() }

// Assume records an assumption.
func (r *Run) Assume(s string) {
	r.mu.Lock()
	r.res.Assumptions = append(r.res.Assumptions, s)
	r.mu.Unlock()
}

// Observe sets an observed counter/value.
func (r *Run) Observe(k string, v interface{}) {
	r.mu.Lock()
	r.res.Observed[k] = v
	r.mu.Unlock()
}

// ObserveAdd adds to an integer observation.
func (r *Run) ObserveAdd(k string, n int64) {
	r.mu.Lock()
	cur, _ := r.res.Observed[k].(int64)
	r.res.Observed[k] = cur + n
	r.mu.Unlock()
}

// Inconclusive records a case that could not be decided.
func (r *Run) Inconclusive(why string) {
	r.mu.Lock()
	if len(r.res.Inconclusive) < 200 {
		r.res.Inconclusive = append(r.res.Inconclusive, why)
	}
	cur, _ := r.res.Observed["inconclusive_total"].(int64)
	r.res.Observed["inconclusive_total"] = cur + 1
	r.mu.Unlock()
}

// Broken marks the run as having observed nothing where it had to.
func (r *Run) Broken(why string) { r.mu.Lock(); r.res.Broken = why; r.mu.Unlock() }

// Crumb records the case about to be executed, so that the parent can
// attribute a process death to it. Cheap: one pwrite at offset 0.
func (r *Run) Crumb(format string, a ...interface{}) {
	if r.crumb == nil {
		return
	}
	s := fmt.Sprintf(format, a...)
	if len(s) > 4000 {
		s = s[:4000]
	}
	b := make([]byte, 4096)
	copy(b, s)
	for i := len(s); i < len(b); i++ {
		b[i] = ' '
	}
	r.crumb.WriteAt(b, 0)
}

// Violate records a violation. At most 25 per tag are kept in full; the rest
// are only counted.
func (r *Run) Violate(tag string, attrs map[string]string, c interface{}, format string, a ...interface{}) {
	r.mu.Lock()
	defer r.mu.Unlock()
	// the cap is per (tag, attrs) class so that a frequent known class cannot
	// crowd out a different one
	key := tag
	if len(attrs) > 0 {
		ks := make([]string, 0, len(attrs))
		for k, v := range attrs {
			ks = append(ks, k+"="+v)
		}
		sort.Strings(ks)
		key += "|" + strings.Join(ks, ",")
	}
	r.vioCount[key]++
	if !r.knownLoaded {
		r.known, r.knownLoaded = LoadKnown(r.res.ID), true
	}
	if r.known.Match(&Violation{Tag: tag, Attrs: attrs}) == nil {
		r.unknownVio++
	}
	cur, _ := r.res.Observed["violations_total"].(int64)
	r.res.Observed["violations_total"] = cur + 1
	if r.vioCount[key] > 25 || len(r.res.Violations) > 3000 {
		return
	}
	r.res.Violations = append(r.res.Violations, Violation{
		Tag: tag, Attrs: attrs, What: fmt.Sprintf(format, a...), Case: c,
	})
}

// NumViolations returns the number recorded so far.
func (r *Run) NumViolations() int {
	r.mu.Lock()
	defer r.mu.Unlock()
	n := 0
	for _, c := range r.vioCount {
		n += c
	}
	return n
}

// Enough reports whether so many violations were recorded that running the
// remaining cases would only add waiting time (a broken client makes every
// later case run into its bounds): monitors stop their case loops then.
func (r *Run) Enough() bool {
	r.mu.Lock()
	defer r.mu.Unlock()
	return r.unknownVio >= 12 // witnesses of recorded known findings do not count
}

// Elapsed since the child started.
func (r *Run) Elapsed() time.Duration { return time.Since(r.start) }

func tmpDir() string {
	d := filepath.Join(VerifDir, "evidence", "tmp")
	os.MkdirAll(d, 0o755)
	return d
}

// replayInfo reads seed and tier out of the witness file named by
// VERIF_REPLAY: a replay re-executes the deterministic case list of that
// seed and tier (the witness itself names the failing case).
func replayInfo() (seed int64, tier string, ok bool) {
	p := ReplayPath()
	if p == "" {
		return 0, "", false
	}
	b, err := os.ReadFile(p)
	if err != nil {
		return 0, "", false
	}
	var w struct {
		Seed int64  `json:"seed"`
		Tier string `json:"tier"`
	}
	if json.Unmarshal(b, &w) != nil {
		return 0, "", false
	}
	return w.Seed, w.Tier, true
}

func envSeed() int64 {
	if s, _, ok := replayInfo(); ok {
		return s
	}
	if s := os.Getenv("VERIF_SEED"); s != "" {
		if v, err := strconv.ParseInt(s, 10, 64); err == nil {
			return v
		}
	}
	return 1
}

func tierFromArgs() string {
	t := ""
	if _, rt, ok := replayInfo(); ok && rt != "" {
		return rt
	}
	for i, a := range os.Args[1:] {
		if a == "quick" || a == "thorough" {
			t = a
		}
		if a == "-tier" && i+2 < len(os.Args) {
			t = os.Args[i+2]
		}
	}
	if t == "" {
		t = os.Getenv("VERIF_TIER")
	}
	if t != "thorough" {
		t = "quick"
	}
	return t
}

// ReplayPath is set when the monitor is asked to replay a witness.
func ReplayPath() string { return os.Getenv("VERIF_REPLAY") }

// Options tune the parent.
type Options struct {
	// Race: the binary was built with -race; parse race logs.
	Race bool
	// RaceFilter decides whether a race report counts (nil = every report
	// with a library frame counts). It returns a tag ("" = ignore).
	RaceFilter func(rep RaceReport) string
	// QuickTimeout / ThoroughTimeout bound the child (watchdog; firing is
	// reported as inconclusive, exit 2).
	QuickTimeout    time.Duration
	ThoroughTimeout time.Duration
}

// Main is the entry point of every monitor.
func Main(id, level string, opt Options, body func(r *Run)) {
	if os.Getenv("VERIF_CHILD") == "1" {
		child(id, level, body)
		return
	}
	parent(id, level, opt)
}

func resultPath(id string) string { return filepath.Join(tmpDir(), id+".result.json") }
func crumbPath(id string) string  { return filepath.Join(tmpDir(), id+".crumb") }
func stderrPath(id string) string { return filepath.Join(tmpDir(), id+".stderr") }
func racePrefix(id string) string { return filepath.Join(tmpDir(), "race_"+id) }

func child(id, level string, body func(r *Run)) {
	r := &Run{
		distinct: map[uint64]struct{}{},
		vioCount: map[string]int{},
		start:    time.Now(),
	}
	r.res = Result{ID: id, Tier: tierFromArgs(), Seed: envSeed(), Level: level,
		Observed: map[string]interface{}{}, Samples: []interface{}{}}
	r.Rand = rand.New(rand.NewSource(r.res.Seed*7919 + int64(Hash64(id)%100003)))
	if f, err := os.OpenFile(crumbPath(id), os.O_CREATE|os.O_RDWR|os.O_TRUNC, 0o644); err == nil {
		r.crumb = f
	}
	// periodic flush so that a later crash still leaves counts behind
	stop := make(chan struct{})
	go func() {
		t := time.NewTicker(2 * time.Second)
		defer t.Stop()
		for {
			select {
			case <-stop:
				return
			case <-t.C:
				r.flush(false)
			}
		}
	}()
	body(r)
	close(stop)
	r.flush(true)
	os.Exit(0)
}

// FinishNow flushes what was recorded as a complete result and ends the child
// (used by watchdogs inside a monitor after recording a hang: the stuck
// goroutine cannot be cancelled, so the process ends with its verdict).
func (r *Run) FinishNow() {
	r.flush(true)
	os.Exit(0)
}

func (r *Run) flush(complete bool) {
	r.mu.Lock()
	r.res.Distinct = int64(len(r.distinct)) + r.distinctEnum
	r.res.WallS = time.Since(r.start).Seconds()
	r.res.Complete = complete
	b, _ := json.Marshal(&r.res)
	r.mu.Unlock()
	tmp := resultPath(r.res.ID) + ".part"
	if os.WriteFile(tmp, b, 0o644) == nil {
		os.Rename(tmp, resultPath(r.res.ID))
	}
}

// ---------------------------------------------------------------- parent

func parent(id, level string, opt Options) {
	start := time.Now()
	tier := tierFromArgs()
	seed := envSeed()
	// clean previous artefacts
	os.Remove(resultPath(id))
	os.Remove(crumbPath(id))
	if old, _ := filepath.Glob(racePrefix(id) + ".*"); old != nil {
		for _, f := range old {
			os.Remove(f)
		}
	}
	evPath := filepath.Join(VerifDir, "evidence", id+".json")
	os.MkdirAll(filepath.Dir(evPath), 0o755)
	os.Remove(evPath)

	to := opt.QuickTimeout
	if tier == "thorough" {
		to = opt.ThoroughTimeout
	}
	if to == 0 {
		if tier == "thorough" {
			to = 90 * time.Minute
		} else {
			to = 15 * time.Minute
		}
	}

	errf, _ := os.Create(stderrPath(id))
	cmd := exec.Command(os.Args[0], os.Args[1:]...)
	cmd.Env = append(os.Environ(), "VERIF_CHILD=1")
	if opt.Race {
		cmd.Env = append(cmd.Env, "GORACE=halt_on_error=0 exitcode=0 log_path="+racePrefix(id)+" history_size=3")
	}
	cmd.Stdout = os.Stdout
	cmd.Stderr = errf
	cmd.SysProcAttr = &syscall.SysProcAttr{Setpgid: true}
	if err := cmd.Start(); err != nil {
		fmt.Printf("BROKEN property=%s cannot start child: %v\n", id, err)
		os.Exit(2)
	}
	done := make(chan error, 1)
	go func() { done <- cmd.Wait() }()
	var werr error
	timedOut := false
	select {
	case werr = <-done:
	case <-time.After(to):
		timedOut = true
		syscall.Kill(-cmd.Process.Pid, syscall.SIGQUIT)
		select {
		case werr = <-done:
		case <-time.After(10 * time.Second):
			syscall.Kill(-cmd.Process.Pid, syscall.SIGKILL)
			werr = <-done
		}
	}
	errf.Close()

	var res Result
	haveRes := false
	if b, err := os.ReadFile(resultPath(id)); err == nil {
		if json.Unmarshal(b, &res) == nil {
			haveRes = true
		}
	}
	if !haveRes {
		res = Result{ID: id, Tier: tier, Seed: seed, Level: level, Observed: map[string]interface{}{}}
	}
	if res.Observed == nil {
		res.Observed = map[string]interface{}{}
	}

	crashed := false
	if werr != nil || !res.Complete {
		crashed = true
	}
	if timedOut {
		// watchdog: inconclusive, not a violation
		fmt.Printf("INCONCLUSIVE property=%s child exceeded the %v watchdog (see %s)\n", id, to, stderrPath(id))
		res.Inconclusive = append(res.Inconclusive, "watchdog fired after "+to.String())
		writeEvidence(evPath, &res, nil, nil, time.Since(start).Seconds(), -1)
		os.Exit(2)
	}
	if crashed {
		crumb, _ := os.ReadFile(crumbPath(id))
		tail := tailOf(stderrPath(id), 60)
		what := firstFatalLine(tail)
		res.Violations = append(res.Violations, Violation{
			Tag:   "crash",
			Attrs: map[string]string{"fatal": what},
			What:  "monitor process died (panic / fatal error escaped the library or a monitor goroutine): " + what,
			Case:  map[string]interface{}{"last_case": strings.TrimSpace(string(crumb)), "stderr_tail": tail, "exit": fmt.Sprint(werr)},
		})
	}

	// race logs
	var races []RaceReport
	if opt.Race {
		races = ParseRaceLogs(racePrefix(id))
		seen := map[string]int{}
		classes := map[string]int{}
		for _, rep := range races {
			tag := "race"
			if opt.RaceFilter != nil {
				tag = opt.RaceFilter(rep)
			}
			classes[tag+"|"+rep.Signature()]++
			if tag == "" || strings.HasPrefix(tag, "benign:") {
				continue
			}
			sig := rep.Signature()
			seen[sig]++
			if seen[sig] > 1 {
				continue
			}
			res.Violations = append(res.Violations, Violation{
				Tag:   tag,
				Attrs: map[string]string{"sig": sig},
				What:  "data race reported by the Go race detector: " + sig,
				Case:  map[string]interface{}{"report": rep.Text},
			})
		}
		res.Observed["race_reports_total"] = len(races)
		res.Observed["race_signature_counts"] = classes
	}

	if res.Broken != "" && len(res.Violations) == 0 {
		fmt.Printf("BROKEN property=%s %s\n", id, res.Broken)
		writeEvidence(evPath, &res, nil, nil, time.Since(start).Seconds(), -1)
		os.Exit(2)
	}

	// known findings
	kf := LoadKnown(id)
	var unknown []Violation
	knownSeen := map[string]string{}
	for i := range res.Violations {
		v := &res.Violations[i]
		if k := kf.Match(v); k != nil {
			knownSeen[k.ID] = k.What
			continue
		}
		unknown = append(unknown, *v)
	}
	var knownIDs []string
	for k := range knownSeen {
		knownIDs = append(knownIDs, k)
	}
	sort.Strings(knownIDs)
	for _, k := range knownIDs {
		fmt.Printf("KNOWN-FINDING: property=%s %s\n", id, knownSeen[k])
	}
	// replay files + verdict lines
	os.MkdirAll(filepath.Join(VerifDir, "replay"), 0o755)
	for i := range unknown {
		p := filepath.Join(VerifDir, "replay", fmt.Sprintf("%s-%s-%d-%d.json", id, tier, seed, i))
		unknown[i].Replay = p
		b, _ := json.MarshalIndent(map[string]interface{}{
			"property": id, "tier": tier, "seed": seed, "violation": unknown[i],
		}, "", " ")
		os.WriteFile(p, b, 0o644)
		if i < 20 {
			fmt.Printf("VIOLATION property=%s replay=%s\n", id, p)
			fmt.Printf("  [%s] %s\n", unknown[i].Tag, oneLine(unknown[i].What, 300))
		}
	}
	writeEvidence(evPath, &res, unknown, knownIDs, time.Since(start).Seconds(), len(unknown))
	if len(unknown) > 0 {
		os.Exit(1)
	}
	fmt.Printf("OK property=%s tier=%s seed=%d evaluations=%d distinct=%d wall=%.1fs\n", id, tier, seed, res.Evaluations, res.Distinct, time.Since(start).Seconds())
	os.Exit(0)
}

func oneLine(s string, n int) string {
	s = strings.ReplaceAll(s, "\n", " ")
	if len(s) > n {
		s = s[:n] + "…"
	}
	return s
}

func tailOf(path string, n int) string {
	b, err := os.ReadFile(path)
	if err != nil {
		return ""
	}
	if len(b) > 200000 {
		// keep head (first panic) rather than tail for huge dumps
		b = b[:200000]
	}
	lines := strings.Split(string(b), "\n")
	// find first fatal marker and return n lines from there
	for i, l := range lines {
		if strings.HasPrefix(l, "panic:") || strings.HasPrefix(l, "fatal error:") || strings.Contains(l, "stack overflow") {
			end := i + n
			if end > len(lines) {
				end = len(lines)
			}
			return strings.Join(lines[i:end], "\n")
		}
	}
	if len(lines) > n {
		lines = lines[len(lines)-n:]
	}
	return strings.Join(lines, "\n")
}

func firstFatalLine(tail string) string {
	for _, l := range strings.Split(tail, "\n") {
		if strings.HasPrefix(l, "panic:") || strings.HasPrefix(l, "fatal error:") || strings.Contains(l, "stack overflow") {
			return oneLine(l, 200)
		}
	}
	return "no panic line found (killed or exited abnormally)"
}

func writeEvidence(path string, res *Result, unknown []Violation, known []string, wall float64, nvio int) {
	samples := res.Samples
	if samples == nil {
		samples = []interface{}{}
	}
	cov := map[string]interface{}{
		"evaluations":         res.Evaluations,
		"distinct_nontrivial": res.Distinct,
		"rule":                res.Rule,
		"samples":             samples,
		"exhaustive":          res.Exhaustive,
		"observed":            res.Observed,
		"inconclusive":        res.Inconclusive,
		"known_findings_seen": known,
	}
	if len(unknown) > 0 {
		var vs []interface{}
		for i, v := range unknown {
			if i >= 10 {
				break
			}
			vs = append(vs, map[string]interface{}{"tag": v.Tag, "what": oneLine(v.What, 400), "replay": v.Replay})
		}
		cov["violation_witnesses"] = vs
	}
	ev := map[string]interface{}{
		"property_id":  res.ID,
		"tier":         res.Tier,
		"seed":         res.Seed,
		"level":        res.Level,
		"coverage":     cov,
		"assumptions":  res.Assumptions,
		"wall_s":       wall,
		"child_wall_s": res.WallS,
		"go":           runtime.Version(),
	}
	if res.Assumptions == nil {
		ev["assumptions"] = []string{}
	}
	if nvio >= 0 {
		ev["violations"] = nvio
	}
	b, _ := json.MarshalIndent(ev, "", " ")
	os.WriteFile(path, b, 0o644)
}

// ---------------------------------------------------------------- known findings

// Known is one entry of known_findings.json.
type Known struct {
	ID       string            `json:"id"`
	Property string            `json:"property"`
	Kind     string            `json:"kind"` // "known" | "fixed"
	Tag      string            `json:"tag"`
	Attrs    map[string]string `json:"attrs,omitempty"`
	What     string            `json:"what"`
	Commit   string            `json:"commit,omitempty"`
}

// KnownSet is the list for one property.
type KnownSet []Known

// LoadKnown reads known_findings.json (never written at run time).
func LoadKnown(id string) KnownSet {
	var all struct {
		Findings []Known `json:"findings"`
	}
	b, err := os.ReadFile(filepath.Join(VerifDir, "known_findings.json"))
	if err != nil {
		return nil
	}
	if json.Unmarshal(b, &all) != nil {
		return nil
	}
	var out KnownSet
	for _, k := range all.Findings {
		if k.Property == id && k.Kind == "known" {
			out = append(out, k)
		}
	}
	return out
}

// Match returns the known entry whose tag equals the violation's tag and
// whose attrs are all present with equal values in the violation.
func (ks KnownSet) Match(v *Violation) *Known {
	for i := range ks {
		k := &ks[i]
		if k.Tag != v.Tag {
			continue
		}
		ok := true
		for a, want := range k.Attrs {
			if v.Attrs[a] != want {
				ok = false
				break
			}
		}
		if ok {
			return k
		}
	}
	return nil
}

// ---------------------------------------------------------------- race logs

// RaceReport is one "WARNING: DATA RACE" block.
type RaceReport struct {
	Text   string
	Access [2]RaceAccess
}

// RaceAccess is one side of a report.
type RaceAccess struct {
	Kind  string   // "Read", "Write", "Previous read", ...
	Funcs []string // stack, innermost first
	Files []string // file:line per frame
}

var raceHdr = regexp.MustCompile(`^(Read|Write|Previous read|Previous write|Atomic read|Atomic write|Previous atomic read|Previous atomic write) at 0x[0-9a-f]+ by `)

// ParseRaceLogs reads every file with the given prefix.
func ParseRaceLogs(prefix string) []RaceReport {
	files, _ := filepath.Glob(prefix + ".*")
	var out []RaceReport
	for _, f := range files {
		b, err := os.ReadFile(f)
		if err != nil {
			continue
		}
		blocks := strings.Split(string(b), "WARNING: DATA RACE")
		for _, blk := range blocks[1:] {
			if i := strings.Index(blk, "=================="); i >= 0 {
				blk = blk[:i]
			}
			out = append(out, parseRaceBlock(blk))
		}
	}
	return out
}

func parseRaceBlock(blk string) RaceReport {
	rep := RaceReport{Text: "WARNING: DATA RACE" + blk}
	if len(rep.Text) > 6000 {
		rep.Text = rep.Text[:6000]
	}
	lines := strings.Split(blk, "\n")
	idx := -1
	for i := 0; i < len(lines); i++ {
		l := lines[i]
		if raceHdr.MatchString(l) {
			idx++
			if idx > 1 {
				break
			}
			rep.Access[idx].Kind = raceHdr.FindStringSubmatch(l)[1]
			continue
		}
		if strings.HasPrefix(l, "Goroutine ") {
			break
		}
		if idx >= 0 && idx <= 1 && strings.HasPrefix(l, "  ") && !strings.HasPrefix(l, "      ") {
			fn := strings.TrimSpace(l)
			if p := strings.Index(fn, "("); p > 0 {
				fn = fn[:p]
			}
			file := ""
			if i+1 < len(lines) {
				file = strings.TrimSpace(lines[i+1])
				if sp := strings.Index(file, " "); sp > 0 {
					file = file[:sp]
				}
			}
			rep.Access[idx].Funcs = append(rep.Access[idx].Funcs, fn)
			rep.Access[idx].Files = append(rep.Access[idx].Files, file)
		}
	}
	return rep
}

// LibFrame returns the innermost frame of the access that lies in the
// library (import path contains vapourismo/knx-go), or "" if none.
func (a RaceAccess) LibFrame() string {
	for _, f := range a.Funcs {
		if strings.Contains(f, "vapourismo/knx-go/") {
			return shortFn(f)
		}
	}
	return ""
}

// Innermost returns the innermost function.
func (a RaceAccess) Innermost() string {
	if len(a.Funcs) == 0 {
		return ""
	}
	return shortFn(a.Funcs[0])
}

func shortFn(f string) string {
	f = strings.TrimPrefix(f, "github.com/vapourismo/knx-go/")
	return f
}

// SourceExpr returns the trimmed source line of the innermost library frame
// (read from disk), so that signatures survive line shifts.
func (a RaceAccess) SourceExpr() string {
	for i, f := range a.Funcs {
		if strings.Contains(f, "vapourismo/knx-go/") && i < len(a.Files) {
			parts := strings.Split(a.Files[i], ":")
			if len(parts) >= 2 {
				ln, _ := strconv.Atoi(parts[1])
				if b, err := os.ReadFile(parts[0]); err == nil {
					ls := strings.Split(string(b), "\n")
					if ln >= 1 && ln <= len(ls) {
						return strings.TrimSpace(ls[ln-1])
					}
				}
			}
		}
	}
	return ""
}

// Signature is order-independent: the two (runtime op, library frame,
// source line) triples, sorted.
func (r RaceReport) Signature() string {
	s := []string{
		r.Access[0].Innermost() + "@" + r.Access[0].LibFrame() + "{" + r.Access[0].SourceExpr() + "}",
		r.Access[1].Innermost() + "@" + r.Access[1].LibFrame() + "{" + r.Access[1].SourceExpr() + "}",
	}
	sort.Strings(s)
	return s[0] + " <-> " + s[1]
}

// InvolvesLibrary reports whether either stack has a library frame.
func (r RaceReport) InvolvesLibrary() bool {
	return r.Access[0].LibFrame() != "" || r.Access[1].LibFrame() != ""
}

// IsCloseVsSend reports the closechan/chansend pattern.
func (r RaceReport) IsCloseVsSend() bool {
	a, b := r.Access[0].Innermost(), r.Access[1].Innermost()
	return (a == "runtime.closechan" && b == "runtime.chansend") || (b == "runtime.closechan" && a == "runtime.chansend") ||
		(a == "runtime.closechan" && b == "runtime.chansend1") || (b == "runtime.closechan" && a == "runtime.chansend1")
}
