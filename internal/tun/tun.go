// Package tun holds what the tunnel monitors share: starting a real tunnel
// client on an in-memory socket, recording API calls into the wire log's total
// order, and the offline stop-and-wait history checker.
package tun

import (
	"fmt"
	"sort"
	"strings"
	"time"

	"github.com/anishathalye/porcupine"
	"github.com/vapourismo/knx-go/knx"
	"github.com/vapourismo/knx-go/knx/knxnet"

	"verif/internal/gateway"
	"verif/internal/memsock"
	"verif/internal/spec"
)

// Client is a real tunnel client on an in-memory socket.
type Client struct {
	S   *memsock.Sock
	T   *knx.Tunnel
	Cfg knx.TunnelConfig
}

// Start connects a real Tunnel through the socket (the peer handler must be
// attached already).
func Start(s *memsock.Sock, cfg knx.TunnelConfig) (*Client, error) {
	t, err := knx.NewTunnelOnSocket(s, knxnet.TunnelLayerData, cfg)
	if err != nil {
		return nil, err
	}
	return &Client{S: s, T: t, Cfg: cfg}, nil
}

// StartReal connects a real Tunnel through the library's own constructor and
// UDP socket to a bridge socket (memsock.NewBridge).
func StartReal(s *memsock.Sock, cfg knx.TunnelConfig) (*Client, error) {
	t, err := knx.NewTunnel(s.BridgeAddr(), knxnet.TunnelLayerData, cfg)
	if err != nil {
		return nil, err
	}
	return &Client{S: s, T: t, Cfg: cfg}, nil
}

// Send calls Tunnel.Send with a telegram carrying id and records call and
// return in the wire log's total order.
func (c *Client) Send(g int, id uint32) error {
	c.S.MarkEvent(fmt.Sprintf("call g=%d id=%d", g, id))
	err := c.T.Send(gateway.Req(id))
	es := "nil"
	if err != nil {
		es = err.Error()
	}
	c.S.MarkEvent(fmt.Sprintf("ret g=%d id=%d err=%s", g, id, es))
	return err
}

// SendOp is one Send reconstructed from the log.
type SendOp struct {
	G       int
	ID      uint32
	CallIdx int
	RetIdx  int // -1: never returned
	CallT   time.Duration
	RetT    time.Duration
	Err     string // "nil", or the error text
	// wire
	Frames  []int // log indices of its TunnelReq transmissions
	Seq     uint8
	Channel uint8
}

// OK reports success.
func (o *SendOp) OK() bool { return o.Err == "nil" }

// Rejected reports a failure caused by an error-status acknowledgement.
func (o *SendOp) Rejected() bool { return strings.Contains(o.Err, "rejected") }

// TimedOut reports a response-timeout failure.
func (o *SendOp) TimedOut() bool { return strings.Contains(o.Err, "timeout") }

// Ops reconstructs the Send operations from a log.
func Ops(log []memsock.Event) []*SendOp {
	byID := map[uint32]*SendOp{}
	var ops []*SendOp
	for _, e := range log {
		switch e.Kind {
		case memsock.Mark:
			var g int
			var id uint32
			if strings.HasPrefix(e.Note, "call ") {
				fmt.Sscanf(e.Note, "call g=%d id=%d", &g, &id)
				op := &SendOp{G: g, ID: id, CallIdx: e.Idx, CallT: e.T, RetIdx: -1}
				byID[id] = op
				ops = append(ops, op)
			} else if strings.HasPrefix(e.Note, "ret ") {
				fmt.Sscanf(e.Note, "ret g=%d id=%d", &g, &id)
				if op := byID[id]; op != nil {
					op.RetIdx, op.RetT = e.Idx, e.T
					if i := strings.Index(e.Note, " err="); i >= 0 {
						op.Err = e.Note[i+5:]
					}
				}
			}
		case memsock.Tx:
			if e.Err || e.P.Service != spec.SvcTunnelReq || !e.P.OK {
				continue
			}
			if id, ok := gateway.IDOfBytes(e.P.Cemi); ok {
				if op := byID[id]; op != nil {
					if len(op.Frames) == 0 {
						op.Seq, op.Channel = e.P.Seq, e.P.Channel
					}
					op.Frames = append(op.Frames, e.Idx)
				}
			}
		}
	}
	return ops
}

// Finding is one violation found by the history checker.
type Finding struct {
	Tag  string
	What string
	IDs  []uint32
}

// Params for CheckSender.
type Params struct {
	Resend  time.Duration
	Timeout time.Duration
	// Slack added to upper time bounds (from the stall canary).
	Slack time.Duration
	TCP   bool
	// EarlyTolerance loosens the "never earlier than k x resend interval" bound
	// (loopback slices: timestamps are taken when the datagram is received).
	EarlyTolerance time.Duration
	// Bridge: wire events were logged on receipt at the peer (loopback slice), so a
	// datagram in flight may be logged after the Send's return mark.
	Bridge bool
	// Epochs: log indices at which a successful ConnRes was taken by the
	// client after the first connect (quiescent reconnects only).
	Boundaries []int
}

// CheckSender runs the offline stop-and-wait checker over a log.
func CheckSender(log []memsock.Event, p Params) (finds []Finding, ops []*SendOp) {
	ops = Ops(log)
	add := func(tag string, ids []uint32, format string, a ...interface{}) {
		finds = append(finds, Finding{Tag: tag, What: fmt.Sprintf(format, a...), IDs: ids})
	}
	// wire order of tunnelling requests
	type fr struct {
		idx int
		id  uint32
		ok  bool
	}
	var wire []fr
	for _, e := range log {
		if e.Kind == memsock.Tx && !e.Err && e.P.Service == spec.SvcTunnelReq {
			id, ok := gateway.IDOfBytes(e.P.Cemi)
			wire = append(wire, fr{e.Idx, id, ok && e.P.OK})
		}
	}
	byID := map[uint32]*SendOp{}
	for _, o := range ops {
		byID[o.ID] = o
	}
	// (a) block contiguity: a closed block never reopens
	closed := map[uint32]bool{}
	var last uint32
	have := false
	for _, w := range wire {
		if !w.ok {
			add("sender.malformed-request", nil, "tunnelling request at log index %d is not a well-formed frame carrying a known telegram", w.idx)
			continue
		}
		if byID[w.id] == nil {
			add("sender.unknown-telegram", []uint32{w.id}, "tunnelling request at log index %d carries telegram %d which no Send submitted", w.idx, w.id)
			continue
		}
		if have && w.id != last {
			closed[last] = true
		}
		if closed[w.id] {
			add("sender.interleaved", []uint32{w.id, last}, "telegram %d is retransmitted at log index %d after a request of telegram %d went out in between: more than one request unacknowledged at a time", w.id, w.idx, last)
		}
		last, have = w.id, true
	}
	// per-op checks
	for _, o := range ops {
		if o.RetIdx < 0 {
			add("sender.hang", []uint32{o.ID}, "Send of telegram %d (goroutine %d) never returned", o.ID, o.G)
			continue
		}
		if len(o.Frames) == 0 {
			if o.OK() {
				add("sender.success-without-request", []uint32{o.ID}, "Send of telegram %d reported success without transmitting a request", o.ID)
			}
			continue
		}
		// frames lie within call..ret
		for _, fi := range o.Frames {
			if fi < o.CallIdx || (fi > o.RetIdx && !p.Bridge) {
				add("sender.frame-outside-call", []uint32{o.ID}, "a request of telegram %d went out at log index %d outside its Send [%d,%d]", o.ID, fi, o.CallIdx, o.RetIdx)
			}
		}
		// (b) identical retransmissions, never early
		first := log[o.Frames[0]]
		for k, fi := range o.Frames {
			e := log[fi]
			if string(e.Bytes) != string(first.Bytes) {
				add("sender.retransmission-differs", []uint32{o.ID}, "retransmission %d of telegram %d differs from the first transmission: %x vs %x", k, o.ID, e.Bytes, first.Bytes)
			}
			if !p.TCP && e.T+50*time.Microsecond+p.EarlyTolerance < first.T+time.Duration(k)*p.Resend {
				add("sender.retransmission-early", []uint32{o.ID}, "retransmission %d of telegram %d went out %v after the first (resend interval %v)", k, o.ID, e.T-first.T, p.Resend)
			}
		}
		if p.TCP {
			if len(o.Frames) != 1 {
				add("tcp.frames-per-send", []uint32{o.ID}, "TCP: Send of telegram %d transmitted %d requests", o.ID, len(o.Frames))
			}
			if !o.OK() {
				add("tcp.send-failed", []uint32{o.ID}, "TCP: Send of telegram %d failed: %s", o.ID, o.Err)
			}
			if first.P.Seq != 0 {
				add("tcp.sequence", []uint32{o.ID}, "TCP: request of telegram %d carries sequence number %d", o.ID, first.P.Seq)
			}
			continue
		}
		// (g) returns within the timeout of the first transmission
		if d := o.RetT - first.T; d > p.Timeout+p.Slack {
			add("sender.late-return", []uint32{o.ID}, "Send of telegram %d returned %v after its first transmission (response timeout %v, slack %v)", o.ID, d, p.Timeout, p.Slack)
		}
		// retransmissions continue while pending: no gap much larger than the interval
		prev := first.T
		for _, fi := range append(o.Frames[1:], -1) {
			var t time.Duration
			if fi >= 0 {
				t = log[fi].T
			} else {
				t = o.RetT
			}
			if t-prev > p.Resend+p.Slack {
				add("sender.retransmission-gap", []uint32{o.ID}, "telegram %d: %v without a retransmission while the Send was pending (resend interval %v)", o.ID, t-prev, p.Resend)
				break
			}
			prev = t
		}
		// (d) acknowledgement matching inside the Send's interval
		okAck, errAck := 0, 0
		for i := 0; i <= o.RetIdx; i++ {
			e := log[i]
			// the hand-over of an acknowledgement happened within [Idx, TakenAt];
			// the client parks an acknowledgement for up to one resend interval,
			// so one taken that shortly before the first transmission can still
			// be consumed by this Send
			if e.Kind == memsock.Rx && e.Taken && (e.TakenAt >= o.Frames[0] || e.TakenT+p.Resend+p.Slack >= first.T) && e.P.Service == spec.SvcTunnelRes && e.P.Channel == o.Channel && e.P.Seq == o.Seq {
				if e.P.Status == 0 {
					okAck++
				} else {
					errAck++
				}
			}
		}
		switch {
		case o.OK() && okAck == 0:
			add("sender.success-without-ack", []uint32{o.ID}, "Send of telegram %d (channel %d, sequence %d) reported success although no acknowledgement with that channel, that sequence number and status OK was delivered during the Send", o.ID, o.Channel, o.Seq)
		case o.Rejected() && errAck == 0:
			add("sender.rejected-without-ack", []uint32{o.ID}, "Send of telegram %d failed as rejected although no matching error-status acknowledgement was delivered", o.ID)
		}
		if errAck > 0 && okAck == 0 && o.OK() {
			add("sender.error-ack-succeeded", []uint32{o.ID}, "Send of telegram %d succeeded although every matching acknowledgement carried an error status", o.ID)
		}
	}
	if p.TCP {
		return
	}
	// (c) consecutive numbering per epoch, in wire order of the blocks
	var blocks []*SendOp
	seen := map[uint32]bool{}
	for _, w := range wire {
		if w.ok && !seen[w.id] && byID[w.id] != nil {
			seen[w.id] = true
			blocks = append(blocks, byID[w.id])
		}
	}
	sort.SliceStable(blocks, func(i, j int) bool { return blocks[i].Frames[0] < blocks[j].Frames[0] })
	bi := 0
	next := uint8(0)
	bounds := append([]int(nil), p.Boundaries...)
	for _, b := range blocks {
		for bi < len(bounds) && b.Frames[0] > bounds[bi] {
			bi++
			next = 0
		}
		if b.Seq != next {
			add("sender.numbering", []uint32{b.ID}, "telegram %d went out with sequence number %d, expected %d (numbers of acknowledged requests are consecutive modulo 256 from 0 after every connect; an unacknowledged request does not advance the number)", b.ID, b.Seq, next)
			next = b.Seq
		}
		if b.RetIdx >= 0 && (b.OK() || b.Rejected()) {
			next++
		}
	}
	return
}

// numberedLogInput / output for porcupine.
type nlIn struct{ ID uint32 }
type nlOut struct {
	Seq      uint8
	Advanced bool
	Sent     bool
}

// PorcupineSender checks the per-epoch send log against a sequential
// "numbered log" model: state = next number; a Send uses the current number
// and advances it iff it was acknowledged (OK or rejected). It returns
// "ok", "illegal" or "unknown".
func PorcupineSender(ops []*SendOp, boundaries []int, timeout time.Duration) string {
	model := porcupine.Model{
		Init: func() interface{} { return uint8(0) },
		Step: func(st, in, out interface{}) (bool, interface{}) {
			s := st.(uint8)
			o := out.(nlOut)
			if !o.Sent {
				return true, s
			}
			if o.Seq != s {
				return false, s
			}
			if o.Advanced {
				return true, s + 1
			}
			return true, s
		},
		Equal: func(a, b interface{}) bool { return a.(uint8) == b.(uint8) },
	}
	// partition by epoch
	parts := map[int][]porcupine.Operation{}
	for _, o := range ops {
		if o.RetIdx < 0 {
			continue
		}
		ep := 0
		for _, b := range boundaries {
			if o.CallIdx > b {
				ep++
			}
		}
		parts[ep] = append(parts[ep], porcupine.Operation{ClientId: o.G % 64, Input: nlIn{o.ID}, Call: int64(o.CallIdx), Return: int64(o.RetIdx),
			Output: nlOut{Seq: o.Seq, Advanced: o.OK() || o.Rejected(), Sent: len(o.Frames) > 0}})
	}
	res := "ok"
	for _, p := range parts {
		switch porcupine.CheckOperationsTimeout(model, p, timeout) {
		case porcupine.Illegal:
			return "illegal"
		case porcupine.Unknown:
			res = "unknown"
		}
	}
	return res
}
