// Package mcast gives the monitors a view of a real multicast link: an
// AF_PACKET capture of the datagrams this host sends to a group:port (so the
// transmissions of a real knx.NewRouter / knx.Discover socket can be observed
// although the library switches multicast loopback off) and an injector
// socket that sends datagrams to the group (which the library's socket
// receives). Used by the loopback slices that run the real router
// constructors.
package mcast

import (
	"encoding/binary"
	"fmt"
	"net"
	"os"
	"sync"
	"sync/atomic"
	"syscall"
	"time"
)

// Captured is one datagram seen leaving the host for the group.
type Captured struct {
	T       time.Duration // since Open
	Kernel  bool          // T is the kernel's transmit timestamp, not the capture goroutine's read time
	SrcPort int
	Bytes   []byte
}

// Link is an observed multicast group.
type Link struct {
	Group string
	IP    net.IP
	Port  int

	start  time.Time
	inj    *net.UDPConn
	fd     int
	stop   chan struct{}
	mu     sync.Mutex
	frames []Captured
	n      atomic.Int64
	kts    atomic.Int64
}

// KernelStamped returns how many captured datagrams carry the kernel's
// transmit timestamp (the others carry the capture goroutine's read time).
func (l *Link) KernelStamped() int { return int(l.kts.Load()) }

func kernelStamp(oob []byte) (time.Time, bool) {
	msgs, err := syscall.ParseSocketControlMessage(oob)
	if err != nil {
		return time.Time{}, false
	}
	for _, m := range msgs {
		if m.Header.Level == syscall.SOL_SOCKET && m.Header.Type == syscall.SO_TIMESTAMPNS && len(m.Data) >= 16 {
			sec := int64(binary.LittleEndian.Uint64(m.Data[0:8]))
			nsec := int64(binary.LittleEndian.Uint64(m.Data[8:16]))
			return time.Unix(sec, nsec), true
		}
	}
	return time.Time{}, false
}

func htons(v uint16) uint16 { return v<<8 | v>>8 }

// Open picks a per-process group (salted by id), starts the capture and the
// injector. It fails when AF_PACKET is not permitted.
func Open(id int) (*Link, error) {
	pid := os.Getpid()
	ip := net.IPv4(239, byte(120+pid%100), byte((pid/100)%250), byte(1+id%250))
	port := 23000 + (id*13+pid)%20000
	l := &Link{Group: fmt.Sprintf("%s:%d", ip, port), IP: ip, Port: port, start: time.Now(), stop: make(chan struct{})}
	fd, err := syscall.Socket(syscall.AF_PACKET, syscall.SOCK_RAW, int(htons(syscall.ETH_P_ALL)))
	if err != nil {
		return nil, fmt.Errorf("AF_PACKET: %v", err)
	}
	syscall.SetsockoptTimeval(fd, syscall.SOL_SOCKET, syscall.SO_RCVTIMEO, &syscall.Timeval{Usec: 20000})
	syscall.SetsockoptInt(fd, syscall.SOL_SOCKET, syscall.SO_RCVBUF, 8<<20)
	// kernel transmit timestamps: the capture goroutine may be scheduled late and then
	// reads queued packets in a bunch, so its own clock would compress the gaps
	syscall.SetsockoptInt(fd, syscall.SOL_SOCKET, syscall.SO_TIMESTAMPNS, 1)
	l.fd = fd
	gaddr, _ := net.ResolveUDPAddr("udp4", l.Group)
	inj, err := net.DialUDP("udp4", nil, gaddr)
	if err != nil {
		syscall.Close(fd)
		return nil, err
	}
	l.inj = inj
	injPort := inj.LocalAddr().(*net.UDPAddr).Port
	go func() {
		defer syscall.Close(fd)
		buf := make([]byte, 65536)
		oob := make([]byte, 256)
		for {
			select {
			case <-l.stop:
				return
			default:
			}
			n, oobn, _, from, err := syscall.Recvmsg(fd, buf, oob, 0)
			if err != nil || n < 14+20+8 {
				continue
			}
			at := time.Since(l.start)
			ts, kernel := kernelStamp(oob[:oobn])
			if kernel {
				at = ts.Sub(l.start)
			}
			ll, _ := from.(*syscall.SockaddrLinklayer)
			if ll == nil || ll.Pkttype != 4 { // PACKET_OUTGOING only
				continue
			}
			b := buf[:n]
			if b[12] != 0x08 || b[13] != 0x00 {
				continue
			}
			ipb := b[14:]
			ihl := int(ipb[0]&15) * 4
			if ipb[9] != 17 || len(ipb) < ihl+8 || !net.IP(ipb[16:20]).Equal(ip.To4()) {
				continue
			}
			udp := ipb[ihl:]
			if int(udp[2])<<8|int(udp[3]) != port {
				continue
			}
			src := int(udp[0])<<8 | int(udp[1])
			if src == injPort {
				continue // our own injections
			}
			ulen := int(udp[4])<<8 | int(udp[5])
			if ulen < 8 || ulen > len(udp) {
				continue
			}
			l.mu.Lock()
			l.frames = append(l.frames, Captured{T: at, Kernel: kernel, SrcPort: src, Bytes: append([]byte(nil), udp[8:ulen]...)})
			l.mu.Unlock()
			if kernel {
				l.kts.Add(1)
			}
			l.n.Add(1)
		}
	}()
	return l, nil
}

// Now returns the link's clock.
func (l *Link) Now() time.Duration { return time.Since(l.start) }

// Inject sends a datagram to the group.
func (l *Link) Inject(b []byte) error {
	_, err := l.inj.Write(b)
	return err
}

// Count returns the number of captured datagrams.
func (l *Link) Count() int { return int(l.n.Load()) }

// Frames returns a copy of the captured datagrams from index from on.
func (l *Link) Frames(from int) []Captured {
	l.mu.Lock()
	defer l.mu.Unlock()
	if from >= len(l.frames) {
		return nil
	}
	return append([]Captured(nil), l.frames[from:]...)
}

// WaitCount waits until at least n datagrams were captured.
func (l *Link) WaitCount(n int, bound time.Duration) bool {
	dl := time.Now().Add(bound)
	for l.Count() < n {
		if time.Now().After(dl) {
			return false
		}
		time.Sleep(200 * time.Microsecond)
	}
	return true
}

// Close ends capture and injector.
func (l *Link) Close() {
	close(l.stop)
	l.inj.Close()
}
