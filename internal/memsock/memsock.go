// Package memsock is an in-memory knxnet.Socket: the wire as an event log.
//
// Every Send is packed to bytes, parsed with the independent parser of
// internal/spec, time-stamped and appended to a totally ordered log under one
// mutex (the order of the log is the order of the sock.Send calls); the event
// is then queued for the attached peer handler, which runs on its own
// dispatcher goroutine (so a peer that answers synchronously can never
// deadlock with a client goroutine that is inside Send). Frames for the
// client are handed over by a receiver goroutine through an unbuffered
// channel, exactly like the real sockets do; Deliver returns when the client
// has taken the frame, which gives the harness exact knowledge of the order
// in which the client consumed frames.
package memsock

import (
	"errors"
	"fmt"
	"net"
	"sync"
	"time"

	"github.com/vapourismo/knx-go/knx/knxnet"

	"verif/internal/spec"
)

// Kind of a log event.
const (
	Tx   = "tx"   // client -> wire
	Rx   = "rx"   // wire -> client, logged when the client took the frame
	Mark = "mark" // harness / API event placed into the same total order
)

// Event is one entry of the wire log.
type Event struct {
	Idx   int
	T     time.Duration // monotonic, since the socket was created
	Kind  string
	Bytes []byte
	P     spec.Parsed
	Err   bool   // tx: the send failed (injected), nothing went on the wire
	Note  string // mark text / panic text
	Svc   knxnet.Service
	// Rx events are logged when the frame is offered to the client; the
	// hand-over itself happened somewhere in [Idx, TakenAt] of the log order.
	Taken   bool
	TakenAt int
	TakenT  time.Duration
}

// Fault is what an injected send policy decides for one transmission.
type Fault struct {
	Fail  error         // Send returns this error, nothing goes on the wire
	Sleep time.Duration // Send sleeps this long after the frame went out (caller still holds its locks)
}

// Sock implements knxnet.Socket.
type Sock struct {
	mu      sync.Mutex
	start   time.Time
	log     []Event
	network string
	addr    net.Addr

	inbound chan knxnet.Service
	rxq     chan rxItem
	done    chan struct{}
	once    sync.Once
	closed  bool
	closes  int

	// peer dispatch
	qmu    sync.Mutex
	qcond  *sync.Cond
	queue  []Event
	qstop  bool
	qidle  bool
	// Handler is invoked on the dispatcher goroutine for every frame that
	// went on the wire, in wire order. Set before the client is started.
	Handler func(ev Event)
	// SendFault, if set, is consulted for every Send (under no lock).
	SendFault func(p spec.Parsed, raw []byte) Fault

	// bridge mode: the client is a real socket of the library talking UDP to
	// this address; the log and the peer handler work as in memory
	bridge     *net.UDPConn
	bridgePeer *net.UDPAddr
	bridgeMu   sync.Mutex
}

// NewBridge creates a socket log whose client side is a real UDP endpoint on
// loopback: datagrams the library sends to BridgeAddr() are logged as Tx and
// handed to the peer handler; Deliver encodes the frame and sends it to the
// client (logged as Rx, "taken" at send time: the real hand-over inside the
// library's receiver cannot be observed). Used for the loopback slices that
// run the real constructors (knx.NewTunnel, knx.NewGroupTunnel).
func NewBridge() (*Sock, error) {
	pc, err := net.ListenUDP("udp4", &net.UDPAddr{IP: net.IPv4(127, 0, 0, 1)})
	if err != nil {
		return nil, err
	}
	pc.SetReadBuffer(4 << 20)
	s := &Sock{start: time.Now(), network: "udp", addr: pc.LocalAddr(),
		inbound: make(chan knxnet.Service), rxq: make(chan rxItem), done: make(chan struct{}), bridge: pc}
	s.qcond = sync.NewCond(&s.qmu)
	go s.dispatcher()
	go func() {
		buf := make([]byte, 4096)
		for {
			n, from, err := pc.ReadFromUDP(buf)
			if err != nil {
				return
			}
			raw := append([]byte(nil), buf[:n]...)
			s.bridgeMu.Lock()
			s.bridgePeer = from
			s.bridgeMu.Unlock()
			parsed := spec.Parse(raw)
			s.mu.Lock()
			ev := Event{Idx: len(s.log), T: time.Since(s.start), Kind: Tx, Bytes: raw, P: parsed}
			s.log = append(s.log, ev)
			s.mu.Unlock()
			s.qmu.Lock()
			s.queue = append(s.queue, ev)
			s.qcond.Broadcast()
			s.qmu.Unlock()
		}
	}()
	return s, nil
}

// BridgeAddr is the address the real client has to dial.
func (s *Sock) BridgeAddr() string { return s.bridge.LocalAddr().String() }

// BridgeAddr2 returns the bridge address or "" for an in-memory socket.
func (s *Sock) BridgeAddr2() string {
	if s.bridge == nil {
		return ""
	}
	return s.bridge.LocalAddr().String()
}

// CloseBridge ends a bridge socket (the harness side).
func (s *Sock) CloseBridge() {
	if s.bridge != nil {
		s.bridge.Close()
	}
	s.shutdown()
}

type rxItem struct {
	svc  knxnet.Service
	done chan bool
}

type addr struct{ network, s string }

func (a addr) Network() string { return a.network }
func (a addr) String() string  { return a.s }

// New creates a socket whose LocalAddr reports the given network ("udp"/"tcp").
func New(network string) *Sock {
	s := &Sock{start: time.Now(), network: network, addr: addr{network, "192.0.2.7:51234"},
		inbound: make(chan knxnet.Service), rxq: make(chan rxItem), done: make(chan struct{})}
	s.qcond = sync.NewCond(&s.qmu)
	go s.receiver()
	go s.dispatcher()
	return s
}

// receiver mimics serveUDPSocket: hands frames over one at a time and closes
// Inbound when the socket is closed.
func (s *Sock) receiver() {
	defer close(s.inbound)
	for {
		select {
		case <-s.done:
			return
		case it := <-s.rxq:
			s.mu.Lock()
			ri := len(s.log)
			s.log = append(s.log, Event{Idx: ri, T: time.Since(s.start), Kind: Rx, Svc: it.svc, P: parseSvc(it.svc)})
			s.mu.Unlock()
			select {
			case s.inbound <- it.svc:
				s.mu.Lock()
				s.log[ri].Taken = true
				s.log[ri].TakenAt = len(s.log)
				s.log[ri].TakenT = time.Since(s.start)
				s.mu.Unlock()
				it.done <- true
			case <-s.done:
				it.done <- false
				return
			}
		}
	}
}

func parseSvc(svc knxnet.Service) spec.Parsed {
	var p spec.Parsed
	p.Service = uint16(svc.Service())
	p.OK = true
	switch v := svc.(type) {
	case *knxnet.ConnRes:
		p.Channel, p.Status = v.Channel, uint8(v.Status)
	case *knxnet.ConnStateRes:
		p.Channel, p.Status = v.Channel, uint8(v.Status)
	case *knxnet.ConnStateReq:
		p.Channel, p.Status = v.Channel, uint8(v.Status)
	case *knxnet.DiscReq:
		p.Channel, p.Status = v.Channel, v.Status
	case *knxnet.DiscRes:
		p.Channel, p.Status = v.Channel, v.Status
	case *knxnet.TunnelReq:
		p.Channel, p.Seq = v.Channel, v.SeqNumber
	case *knxnet.TunnelRes:
		p.Channel, p.Seq, p.Status = v.Channel, v.SeqNumber, uint8(v.Status)
	}
	return p
}

func (s *Sock) dispatcher() {
	for {
		s.qmu.Lock()
		for len(s.queue) == 0 && !s.qstop {
			s.qidle = true
			s.qcond.Broadcast()
			s.qcond.Wait()
		}
		if len(s.queue) == 0 && s.qstop {
			s.qidle = true
			s.qcond.Broadcast()
			s.qmu.Unlock()
			return
		}
		s.qidle = false
		ev := s.queue[0]
		s.queue = s.queue[1:]
		h := s.Handler
		s.qmu.Unlock()
		if h != nil {
			h(ev)
		}
	}
}

// Quiesce waits until the peer handler has processed every queued frame (or
// the bound passes); it reports whether the queue drained.
func (s *Sock) Quiesce(bound time.Duration) bool {
	deadline := time.Now().Add(bound)
	s.qmu.Lock()
	defer s.qmu.Unlock()
	for !(len(s.queue) == 0 && s.qidle) {
		if time.Now().After(deadline) {
			return false
		}
		s.qmu.Unlock()
		time.Sleep(200 * time.Microsecond)
		s.qmu.Lock()
	}
	return true
}

// ErrClosed is what Send returns after Close/Kill.
var ErrClosed = errors.New("memsock: use of closed network connection")

// Send implements knxnet.Socket.
func (s *Sock) Send(p knxnet.ServicePackable) error {
	var raw []byte
	var pan interface{}
	func() {
		defer func() { pan = recover() }()
		raw = knxnet.AllocAndPack(p)
	}()
	if pan != nil {
		s.mu.Lock()
		s.log = append(s.log, Event{Idx: len(s.log), T: time.Since(s.start), Kind: Tx, Err: true, Note: fmt.Sprint("pack panic: ", pan)})
		s.mu.Unlock()
		panic(pan)
	}
	parsed := spec.Parse(raw)
	var f Fault
	if s.SendFault != nil {
		f = s.SendFault(parsed, raw)
	}
	s.mu.Lock()
	if s.closed {
		s.mu.Unlock()
		return ErrClosed
	}
	ev := Event{Idx: len(s.log), T: time.Since(s.start), Kind: Tx, Bytes: raw, P: parsed, Err: f.Fail != nil}
	s.log = append(s.log, ev)
	s.mu.Unlock()
	if f.Fail != nil {
		return f.Fail
	}
	s.qmu.Lock()
	s.queue = append(s.queue, ev)
	s.qcond.Broadcast()
	s.qmu.Unlock()
	if f.Sleep > 0 {
		time.Sleep(f.Sleep)
	}
	return nil
}

// Inbound implements knxnet.Socket.
func (s *Sock) Inbound() <-chan knxnet.Service { return s.inbound }

// LocalAddr implements knxnet.Socket.
func (s *Sock) LocalAddr() net.Addr { return s.addr }

// Close implements knxnet.Socket (called by the client).
func (s *Sock) Close() error {
	s.mu.Lock()
	s.closes++
	s.mu.Unlock()
	s.shutdown()
	return nil
}

// Kill simulates the socket dying underneath the client.
func (s *Sock) Kill() { s.shutdown() }

func (s *Sock) shutdown() {
	s.once.Do(func() {
		s.mu.Lock()
		s.closed = true
		s.log = append(s.log, Event{Idx: len(s.log), T: time.Since(s.start), Kind: Mark, Note: "socket-closed"})
		s.mu.Unlock()
		close(s.done)
		s.qmu.Lock()
		s.qstop = true
		s.qcond.Broadcast()
		s.qmu.Unlock()
	})
}

// Closed reports whether the socket was closed or killed, and how often the
// client called Close.
func (s *Sock) Closed() (bool, int) {
	s.mu.Lock()
	defer s.mu.Unlock()
	return s.closed, s.closes
}

// Deliver hands a frame to the client and returns true once the client has
// taken it (false if the socket closed first).
func (s *Sock) Deliver(svc knxnet.Service) bool {
	if s.bridge != nil {
		p, ok := svc.(knxnet.ServicePackable)
		if !ok {
			return false
		}
		raw := knxnet.AllocAndPack(p)
		// log entry and datagram are produced under one lock, so that the log order
		// of deliveries is the order in which the datagrams reach the socket
		s.bridgeMu.Lock()
		defer s.bridgeMu.Unlock()
		peer := s.bridgePeer
		if peer == nil {
			return false
		}
		// the log entry comes first (an acknowledgement is "delivered" no later than
		// the client can act on it), the datagram follows under the same lock
		s.mu.Lock()
		if s.closed {
			s.mu.Unlock()
			return false
		}
		ri := len(s.log)
		now := time.Since(s.start)
		s.log = append(s.log, Event{Idx: ri, T: now, Kind: Rx, Svc: svc, P: parseSvc(svc), Bytes: raw, Taken: true, TakenAt: ri + 1, TakenT: now})
		s.mu.Unlock()
		if _, err := s.bridge.WriteToUDP(raw, peer); err != nil {
			return false
		}
		return true
	}
	it := rxItem{svc: svc, done: make(chan bool, 1)}
	select {
	case s.rxq <- it:
		return <-it.done
	case <-s.done:
		return false
	}
}

// DeliverFast hands a frame to the client from the calling goroutine, without
// the receiver hop and without a log entry (stress workloads that need a high
// telegram rate); bounded by d.
func (s *Sock) DeliverFast(svc knxnet.Service, t *time.Timer) (taken, expired bool) {
	select {
	case s.inbound <- svc:
		return true, false
	case <-s.done:
		return false, false
	case <-t.C:
		return false, true
	}
}

// DeliverTimeout is Deliver with a bound; on expiry the frame stays queued
// with the receiver (it reports taken=false, expired=true).
func (s *Sock) DeliverTimeout(svc knxnet.Service, d time.Duration) (taken, expired bool) {
	it := rxItem{svc: svc, done: make(chan bool, 1)}
	t := time.NewTimer(d)
	defer t.Stop()
	select {
	case s.rxq <- it:
	case <-s.done:
		return false, false
	case <-t.C:
		return false, true
	}
	select {
	case ok := <-it.done:
		return ok, false
	case <-t.C:
		return false, true
	}
}

// MarkEvent puts a harness event into the log's total order and returns its index.
func (s *Sock) MarkEvent(note string) int {
	s.mu.Lock()
	defer s.mu.Unlock()
	s.log = append(s.log, Event{Idx: len(s.log), T: time.Since(s.start), Kind: Mark, Note: note})
	return len(s.log) - 1
}

// Log returns a copy of the log.
func (s *Sock) Log() []Event {
	s.mu.Lock()
	defer s.mu.Unlock()
	return append([]Event(nil), s.log...)
}

// LogFrom returns a copy of the log from index from on (cheap for polling).
func (s *Sock) LogFrom(from int) []Event {
	s.mu.Lock()
	defer s.mu.Unlock()
	if from < 0 {
		from = 0
	}
	if from >= len(s.log) {
		return nil
	}
	return append([]Event(nil), s.log[from:]...)
}

// Len returns the current number of log events.
func (s *Sock) Len() int {
	s.mu.Lock()
	defer s.mu.Unlock()
	return len(s.log)
}

// Now returns the socket's monotonic clock.
func (s *Sock) Now() time.Duration { return time.Since(s.start) }

// CountTx counts wire frames of a service since log index from.
func (s *Sock) CountTx(service uint16, from int) int {
	s.mu.Lock()
	defer s.mu.Unlock()
	n := 0
	for i := from; i < len(s.log); i++ {
		if s.log[i].Kind == Tx && !s.log[i].Err && s.log[i].P.Service == service {
			n++
		}
	}
	return n
}

// WaitTx polls until at least n frames of the service were sent since from.
func (s *Sock) WaitTx(service uint16, from, n int, bound time.Duration) bool {
	deadline := time.Now().Add(bound)
	for {
		if s.CountTx(service, from) >= n {
			return true
		}
		if time.Now().After(deadline) {
			return false
		}
		time.Sleep(200 * time.Microsecond)
	}
}
