// Package gen holds the seeded generators shared by the monitors.
package gen

import (
	"math/rand"

	"verif/internal/spec"
)

var corner8 = []uint8{0, 1, 2, 3, 4, 0x0f, 0x10, 0x3f, 0x40, 0x7f, 0x80, 0xbf, 0xc0, 0xfe, 0xff}
var corner16 = []uint16{0, 1, 0xff, 0x100, 0x7ff, 0x800, 0x1000, 0x7fff, 0x8000, 0xfffe, 0xffff, 0x1234, 0x0e57}

// U8 draws a byte, half of the time a corner value.
func U8(r *rand.Rand) uint8 {
	if r.Intn(2) == 0 {
		return corner8[r.Intn(len(corner8))]
	}
	return uint8(r.Intn(256))
}

// U16 draws a 16-bit value, half of the time a corner value.
func U16(r *rand.Rand) uint16 {
	if r.Intn(2) == 0 {
		return corner16[r.Intn(len(corner16))]
	}
	return uint16(r.Intn(65536))
}

// Bytes draws n bytes in one of several styles (random, zeros, ones, ramp).
func Bytes(r *rand.Rand, n int) []byte {
	b := make([]byte, n)
	switch r.Intn(5) {
	case 0:
		// zeros
	case 1:
		for i := range b {
			b[i] = 0xff
		}
	case 2:
		for i := range b {
			b[i] = byte(i + 1)
		}
	default:
		r.Read(b)
	}
	return b
}

// HPAI draws a host info.
func HPAI(r *rand.Rand) spec.HPAI {
	var h spec.HPAI
	switch r.Intn(4) {
	case 0: // NAT form
		h.Proto = uint8(1 + r.Intn(2))
	case 1:
		h.Proto = U8(r)
		copy(h.IP[:], Bytes(r, 4))
		h.Port = U16(r)
	default:
		h.Proto = uint8(1 + r.Intn(2))
		h.IP = [4]byte{byte(r.Intn(256)), byte(r.Intn(256)), byte(r.Intn(256)), byte(r.Intn(256))}
		h.Port = U16(r)
	}
	return h
}

// Len draws a length in [lo, hi], biased to the ends.
func Len(r *rand.Rand, lo, hi int) int {
	switch r.Intn(6) {
	case 0:
		return lo
	case 1:
		return hi
	case 2:
		if lo+1 <= hi {
			return lo + 1
		}
		return lo
	case 3:
		if hi-1 >= lo {
			return hi - 1
		}
		return hi
	}
	return lo + r.Intn(hi-lo+1)
}

// TPDU draws a transport unit in canonical form (fields the wire does not
// carry are zero): data units have 1..maxData bytes, first byte < 64.
func TPDU(r *rand.Rand, maxData int) spec.TPDU {
	var t spec.TPDU
	t.Control = r.Intn(4) == 0
	t.Numbered = r.Intn(2) == 0
	if t.Numbered {
		t.Seq = uint8(r.Intn(16))
	}
	if t.Control {
		t.Cmd = uint8(r.Intn(4))
		return t
	}
	t.Cmd = uint8(r.Intn(16))
	n := Len(r, 1, maxData)
	if r.Intn(3) == 0 {
		n = Len(r, 1, 16)
	}
	t.Data = Bytes(r, n)
	t.Data[0] &= 0x3f
	return t
}

// LData draws an L_Data message with the given code.
func LData(r *rand.Rand, code uint8) *spec.Cemi {
	c := &spec.Cemi{Code: code, Ctrl1: U8(r), Ctrl2: U8(r), Src: U16(r), Dst: U16(r)}
	switch r.Intn(4) {
	case 0:
	case 1:
		c.Info = Bytes(r, Len(r, 1, 255))
	default:
		if r.Intn(2) == 0 {
			c.Info = Bytes(r, Len(r, 1, 12))
		}
	}
	c.TPDU = TPDU(r, 254)
	return c
}

// otherCodes are message codes the library does not know.
var otherCodes = []uint8{0x00, 0x01, 0x12, 0x13, 0x25, 0x28, 0x2a, 0x2c, 0x30, 0x7f, 0x80, 0xf1, 0xfc, 0xff}

// Cemi draws any cEMI message kind (kind 0..7; 7 = unsupported code).
func Cemi(r *rand.Rand, kind int) *spec.Cemi {
	if kind < 0 {
		kind = r.Intn(8)
	}
	if kind < 7 {
		code := spec.MessageCodes[kind]
		if spec.IsLData(code) {
			return LData(r, code)
		}
		return &spec.Cemi{Code: code, Raw: Bytes(r, Len(r, 0, 60))}
	}
	return &spec.Cemi{Code: otherCodes[r.Intn(len(otherCodes))], Raw: Bytes(r, Len(r, 0, 60))}
}

// Name draws 0..max Latin-1 bytes without NUL.
func Name(r *rand.Rand, max int) []byte {
	n := Len(r, 0, max)
	b := make([]byte, n)
	for i := range b {
		switch r.Intn(4) {
		case 0:
			b[i] = byte(0x80 + r.Intn(0x80))
		case 1:
			b[i] = byte(1 + r.Intn(0x1f))
		default:
			b[i] = byte(0x20 + r.Intn(0x5f))
		}
	}
	return b
}

// DevInfo draws a device information DIB.
func DevInfo(r *rand.Rand, typ uint8) spec.DevInfo {
	d := spec.DevInfo{Type: typ, Medium: U8(r), Status: U8(r), Source: U16(r), Project: U16(r)}
	copy(d.Serial[:], Bytes(r, 6))
	copy(d.Mcast[:], Bytes(r, 4))
	copy(d.MAC[:], Bytes(r, 6))
	d.Name = Name(r, 29)
	return d
}

// Families draws 0..20 service families.
func Families(r *rand.Rand) [][2]uint8 {
	n := Len(r, 0, 20)
	var f [][2]uint8
	for i := 0; i < n; i++ {
		f = append(f, [2]uint8{U8(r), U8(r)})
	}
	return f
}

// EncodableServices are the services the library can encode (0 = unknown
// service with identifier 0, the only one constructible from outside).
var EncodableServices = []uint16{spec.SvcSearchReq, spec.SvcSearchRes, spec.SvcDescrReq, spec.SvcDescrRes,
	spec.SvcConnReq, spec.SvcConnRes, spec.SvcConnStateReq, spec.SvcConnStateRes, spec.SvcDiscReq, spec.SvcDiscRes,
	spec.SvcTunnelReq, spec.SvcTunnelRes, spec.SvcRoutingInd, 0}

// Frame draws a frame of the given service (cemiKind as for Cemi; -1 random).
func Frame(r *rand.Rand, service uint16, cemiKind int) *spec.Frame {
	f := &spec.Frame{Service: service}
	switch service {
	case spec.SvcSearchReq, spec.SvcDescrReq:
		f.Control = HPAI(r)
	case spec.SvcSearchRes:
		f.Control = HPAI(r)
		typ := uint8(1)
		f.FamType = 2
		if r.Intn(4) == 0 {
			typ, f.FamType = U8(r), U8(r)
		}
		f.Dev = DevInfo(r, typ)
		f.Families = Families(r)
	case spec.SvcDescrRes:
		f.Dev = DevInfo(r, 1)
		f.FamType = 2
		f.Families = Families(r)
	case spec.SvcConnReq:
		f.Control, f.Tunnel, f.Layer = HPAI(r), HPAI(r), U8(r)
	case spec.SvcConnRes:
		f.Channel = U8(r)
		if r.Intn(2) == 0 {
			f.Control = HPAI(r)
		} else {
			f.Status = U8(r)
			if f.Status == 0 {
				f.Control = HPAI(r)
			}
		}
	case spec.SvcConnStateReq, spec.SvcDiscReq:
		f.Channel, f.Status, f.Control = U8(r), U8(r), HPAI(r)
	case spec.SvcConnStateRes, spec.SvcDiscRes:
		f.Channel, f.Status = U8(r), U8(r)
	case spec.SvcTunnelReq:
		f.Channel, f.Seq = U8(r), U8(r)
		f.Cemi = Cemi(r, cemiKind)
	case spec.SvcTunnelRes:
		f.Channel, f.Seq, f.Status = U8(r), U8(r), U8(r)
	case spec.SvcRoutingInd:
		f.Cemi = Cemi(r, cemiKind)
	case spec.SvcRoutingLost:
		f.DevState, f.Count = U8(r), U16(r)
	case spec.SvcRoutingBusy:
		f.DevState, f.WaitMs, f.BusyCtl = U8(r), U16(r), U16(r)
	default:
		f.Raw = Bytes(r, Len(r, 0, 40))
	}
	return f
}

// CarriesCemi reports whether the service embeds a cEMI message.
func CarriesCemi(service uint16) bool {
	return service == spec.SvcTunnelReq || service == spec.SvcRoutingInd
}
