// Package gateway holds the peer models used by the protocol monitors: the
// telegram id helpers, a gateway that follows the KNXnet/IP tunnelling rules
// and a fault-injecting network between it and the client's socket.
package gateway

import (
	"math/rand"
	"sync"
	"time"

	"github.com/vapourismo/knx-go/knx/cemi"
	"github.com/vapourismo/knx-go/knx/knxnet"

	"verif/internal/memsock"
	"verif/internal/spec"
)

// Telegram builds an L_Data message carrying a unique id in its payload
// (GroupValueWrite to a group address; 5 payload bytes: 00 id3 id2 id1 id0).
func Telegram(code uint8, id uint32) *spec.Cemi {
	return &spec.Cemi{Code: code, Ctrl1: 0xbc, Ctrl2: 0xe0, Src: 0x1101, Dst: 0x0a01,
		TPDU: spec.TPDU{Cmd: 2, Data: []byte{0, byte(id >> 24), byte(id >> 16), byte(id >> 8), byte(id)}}}
}

// Req is the library value of an outbound telegram (L_Data.req).
func Req(id uint32) cemi.Message {
	c := Telegram(spec.McLDataReq, id)
	return &cemi.LDataReq{LData: ldata(c)}
}

// Ind is the library value of an inbound telegram (L_Data.ind).
func Ind(id uint32) cemi.Message {
	c := Telegram(spec.McLDataInd, id)
	return &cemi.LDataInd{LData: ldata(c)}
}

func ldata(c *spec.Cemi) cemi.LData {
	return cemi.LData{Control1: cemi.ControlField1(c.Ctrl1), Control2: cemi.ControlField2(c.Ctrl2), Source: cemi.IndividualAddr(c.Src),
		Destination: c.Dst, Data: &cemi.AppData{Command: cemi.APCI(c.TPDU.Cmd), Data: append([]byte(nil), c.TPDU.Data...)}}
}

// IDOfBytes extracts the telegram id from cEMI bytes.
func IDOfBytes(b []byte) (uint32, bool) {
	p := spec.ParseLData(b)
	if !p.OK || p.TPDU.Control || len(p.TPDU.Data) != 5 {
		return 0, false
	}
	d := p.TPDU.Data
	return uint32(d[1])<<24 | uint32(d[2])<<16 | uint32(d[3])<<8 | uint32(d[4]), true
}

// IDOfMessage extracts the telegram id from a library message.
func IDOfMessage(m cemi.Message) (id uint32, ok bool) {
	defer func() {
		if recover() != nil {
			ok = false
		}
	}()
	if m == nil {
		return 0, false
	}
	b := make([]byte, cemi.Size(m))
	cemi.Pack(b, m)
	return IDOfBytes(b)
}

// ---------------------------------------------------------------- network

// Action is what the network does with one datagram.
type Action struct {
	Drop bool
	Dup  int // extra copies delivered right after the original
	Hold int // deliver only after this many later datagrams of the same direction passed (0 = now)
}

// Policy decides per datagram; it must be deterministic given its own state.
type Policy func(dir string, p spec.Parsed, nth int) Action

// NoFaults delivers everything.
func NoFaults(string, spec.Parsed, int) Action { return Action{} }

// RandomPolicy draws faults for tunnelling frames only (heartbeats, connect
// and disconnect frames stay healthy).
func RandomPolicy(rng *rand.Rand, pDrop, pDup, pHold float64) Policy {
	var mu sync.Mutex
	return func(dir string, p spec.Parsed, nth int) Action {
		if p.Service != spec.SvcTunnelReq && p.Service != spec.SvcTunnelRes {
			return Action{}
		}
		mu.Lock()
		defer mu.Unlock()
		x := rng.Float64()
		switch {
		case x < pDrop:
			return Action{Drop: true}
		case x < pDrop+pDup:
			return Action{Dup: 1 + rng.Intn(2)}
		case x < pDrop+pDup+pHold:
			return Action{Hold: 1 + rng.Intn(3)}
		}
		return Action{}
	}
}

type held struct {
	release int
	c2g     *memsock.Event
	g2c     knxnet.Service
}

// ---------------------------------------------------------------- gateway

// BusEntry is one telegram the gateway put on the bus.
type BusEntry struct {
	ID    uint32
	Epoch int
	Seq   uint8
	T     time.Duration
	WireIdx int
}

// OutEntry is one telegram the gateway sent towards the client.
type OutEntry struct {
	ID      uint32
	Epoch   int
	Seq     uint8
	Acked   bool
	GaveUp  bool
	Copies  int
}

// Stats counts what the network did.
type Stats struct {
	Dropped, Duplicated, HeldBack, Delivered int
}

// Gateway follows the tunnelling rules: accept the expected sequence number
// (put on the bus, acknowledge), re-acknowledge the previous one, ignore
// others; own telegrams stop-and-wait with retransmission and give-up;
// heartbeat responder; connect / disconnect handling.
type Gateway struct {
	S      *memsock.Sock
	Policy Policy
	// Resend interval and attempts for the gateway's own requests.
	Resend   time.Duration
	Attempts int
	// NextChannel assigns the channel of the next connect (default: counts up from 1).
	NextChannel func(epoch int) uint8
	// ConnStatus, if set, overrides the connect response status for the n-th connect request.
	ConnStatus func(n int) uint8
	// HeartbeatStatus, if set, decides the answer to a connection-state
	// request (ok=false: stay silent).
	HeartbeatStatus func(epoch int, n int) (status uint8, answer bool)

	mu        sync.Mutex
	epoch     int
	connected bool
	channel   uint8
	expectIn  uint8
	nextOut   uint8
	connReqs  int
	sinceConn int // frames other than connect requests received since the last connect request
	hbReqs    int
	bus       []BusEntry
	out       []OutEntry
	pending   *OutEntry // outstanding own request
	ackCh     chan struct{}
	nC2G      int
	nG2C      int
	heldC2G   []held
	heldG2C   []held
	stats     Stats
	deliverMu sync.Mutex // serialises deliveries so that "later datagram" is well defined
	stopped   bool
	failHB    bool // the next connection-state request is answered "unknown connection" and ends the connection
}

// Disconnect ends the connection from the gateway's side: from now on it
// accepts nothing on the old channel, abandons its own outstanding request and
// sends a disconnect request to the client. Returns false when not connected.
func (g *Gateway) Disconnect() bool {
	g.mu.Lock()
	if !g.connected || g.stopped {
		g.mu.Unlock()
		return false
	}
	g.connected = false
	ch := g.channel
	if g.pending != nil {
		g.pending.GaveUp = true
		g.pending = nil
	}
	g.mu.Unlock()
	g.send(&knxnet.DiscReq{Channel: ch}, spec.Parsed{OK: true, Service: spec.SvcDiscReq, Channel: ch})
	return true
}

// FailNextHeartbeat makes the gateway forget the connection at the next
// connection-state request: it answers "unknown connection" (0x21) and accepts
// nothing on the old channel any more.
func (g *Gateway) FailNextHeartbeat() {
	g.mu.Lock()
	g.failHB = true
	g.mu.Unlock()
}

// NewGateway attaches a rule-following gateway to the socket.
func NewGateway(s *memsock.Sock, policy Policy) *Gateway {
	if policy == nil {
		policy = NoFaults
	}
	g := &Gateway{S: s, Policy: policy, Resend: 3 * time.Millisecond, Attempts: 12}
	s.Handler = g.onWire
	return g
}

// Epoch returns the current connection epoch (1 after the first connect).
func (g *Gateway) Epoch() int { g.mu.Lock(); defer g.mu.Unlock(); return g.epoch }

// Connected reports whether the gateway currently has a connection.
func (g *Gateway) Connected() bool { g.mu.Lock(); defer g.mu.Unlock(); return g.connected }

// Channel returns the current channel.
func (g *Gateway) Channel() uint8 { g.mu.Lock(); defer g.mu.Unlock(); return g.channel }

// Bus returns a copy of the bus log.
func (g *Gateway) Bus() []BusEntry { g.mu.Lock(); defer g.mu.Unlock(); return append([]BusEntry(nil), g.bus...) }

// Out returns a copy of the gateway's own send log.
func (g *Gateway) Out() []OutEntry { g.mu.Lock(); defer g.mu.Unlock(); return append([]OutEntry(nil), g.out...) }

// NetStats returns what the network did so far.
func (g *Gateway) NetStats() Stats { g.mu.Lock(); defer g.mu.Unlock(); return g.stats }

// Stop makes the gateway ignore everything from now on.
func (g *Gateway) Stop() { g.mu.Lock(); g.stopped = true; g.mu.Unlock() }

// onWire: a client frame went on the wire; apply the client->gateway policy.
func (g *Gateway) onWire(ev memsock.Event) {
	if ev.Err {
		return
	}
	g.mu.Lock()
	if g.stopped {
		g.mu.Unlock()
		return
	}
	g.nC2G++
	nth := g.nC2G
	act := g.Policy("c2g", ev.P, nth)
	var due []held
	rest := g.heldC2G[:0]
	for _, h := range g.heldC2G {
		if h.release <= nth {
			due = append(due, h)
		} else {
			rest = append(rest, h)
		}
	}
	g.heldC2G = rest
	switch {
	case act.Drop:
		g.stats.Dropped++
	case act.Hold > 0:
		g.stats.HeldBack++
		e := ev
		g.heldC2G = append(g.heldC2G, held{release: nth + act.Hold, c2g: &e})
	}
	if act.Dup > 0 {
		g.stats.Duplicated += act.Dup
	}
	g.mu.Unlock()
	if !act.Drop && act.Hold == 0 {
		for i := 0; i <= act.Dup; i++ {
			g.receive(ev)
		}
	}
	for _, h := range due {
		g.receive(*h.c2g)
	}
}

// send applies the gateway->client policy and delivers.
func (g *Gateway) send(svc knxnet.Service, p spec.Parsed) {
	g.mu.Lock()
	g.nG2C++
	nth := g.nG2C
	act := g.Policy("g2c", p, nth)
	var due []held
	rest := g.heldG2C[:0]
	for _, h := range g.heldG2C {
		if h.release <= nth {
			due = append(due, h)
		} else {
			rest = append(rest, h)
		}
	}
	g.heldG2C = rest
	switch {
	case act.Drop:
		g.stats.Dropped++
	case act.Hold > 0:
		g.stats.HeldBack++
		g.heldG2C = append(g.heldG2C, held{release: nth + act.Hold, g2c: svc})
	}
	if act.Dup > 0 {
		g.stats.Duplicated += act.Dup
	}
	g.mu.Unlock()
	if !act.Drop && act.Hold == 0 {
		for i := 0; i <= act.Dup; i++ {
			g.deliver(svc)
		}
	}
	for _, h := range due {
		g.deliver(h.g2c)
	}
}

func (g *Gateway) deliver(svc knxnet.Service) {
	g.deliverMu.Lock()
	ok := g.S.Deliver(svc)
	g.deliverMu.Unlock()
	if ok {
		g.mu.Lock()
		g.stats.Delivered++
		g.mu.Unlock()
	}
}

// Flush releases every datagram still held by the network (end of a run).
func (g *Gateway) Flush() {
	g.mu.Lock()
	c2g, g2c := g.heldC2G, g.heldG2C
	g.heldC2G, g.heldG2C = nil, nil
	g.mu.Unlock()
	for _, h := range c2g {
		g.receive(*h.c2g)
	}
	for _, h := range g2c {
		g.deliver(h.g2c)
	}
}

// receive: a client frame reached the gateway.
func (g *Gateway) receive(ev memsock.Event) {
	p := ev.P
	if !p.OK {
		return
	}
	if p.Service != spec.SvcConnReq {
		g.mu.Lock()
		g.sinceConn++
		g.mu.Unlock()
	}
	switch p.Service {
	case spec.SvcConnReq:
		g.mu.Lock()
		// a connect request that follows another one with no other frame in
		// between is the client's retransmission of the same request (the
		// response was slow): it gets the same answer, not a second channel
		if g.connReqs > 0 && g.sinceConn == 0 && g.connected && g.ConnStatus == nil {
			ch := g.channel
			g.mu.Unlock()
			g.send(&knxnet.ConnRes{Channel: ch, Control: knxnet.HostInfo{Protocol: knxnet.UDP4, Address: knxnet.Address{192, 0, 2, 1}, Port: 3671}},
				spec.Parsed{OK: true, Service: spec.SvcConnRes, Channel: ch})
			return
		}
		g.connReqs++
		g.sinceConn = 0
		n := g.connReqs
		status := uint8(0)
		if g.ConnStatus != nil {
			status = g.ConnStatus(n)
		}
		var ch uint8
		if status == 0 {
			g.epoch++
			if g.NextChannel != nil {
				ch = g.NextChannel(g.epoch)
			} else {
				ch = uint8(g.epoch)
			}
			g.channel, g.connected, g.expectIn, g.nextOut = ch, true, 0, 0
			if g.pending != nil {
				g.pending.GaveUp = true
				g.pending = nil
			}
		}
		g.mu.Unlock()
		if status == 0xff { // convention: stay silent
			return
		}
		res := &knxnet.ConnRes{Channel: ch, Status: knxnet.ErrCode(status)}
		if status == 0 {
			res.Control = knxnet.HostInfo{Protocol: knxnet.UDP4, Address: knxnet.Address{192, 0, 2, 1}, Port: 3671}
		}
		g.send(res, spec.Parsed{OK: true, Service: spec.SvcConnRes, Channel: ch, Status: status})
	case spec.SvcConnStateReq:
		g.mu.Lock()
		g.hbReqs++
		n := g.hbReqs
		status := uint8(0)
		if !g.connected || p.Channel != g.channel {
			status = 0x21
		}
		answer := true
		if g.HeartbeatStatus != nil && status == 0 {
			status, answer = g.HeartbeatStatus(g.epoch, n)
		}
		if g.failHB && status == 0 && answer {
			g.failHB = false
			status = 0x21
			g.connected = false
			if g.pending != nil {
				g.pending.GaveUp = true
				g.pending = nil
			}
		}
		g.mu.Unlock()
		if answer {
			g.send(&knxnet.ConnStateRes{Channel: p.Channel, Status: knxnet.ErrCode(status)}, spec.Parsed{OK: true, Service: spec.SvcConnStateRes, Channel: p.Channel, Status: status})
		}
	case spec.SvcDiscReq:
		g.mu.Lock()
		if g.connected && p.Channel == g.channel {
			g.connected = false
		}
		g.mu.Unlock()
		g.send(&knxnet.DiscRes{Channel: p.Channel}, spec.Parsed{OK: true, Service: spec.SvcDiscRes, Channel: p.Channel})
	case spec.SvcTunnelReq:
		g.mu.Lock()
		if !g.connected || p.Channel != g.channel {
			g.mu.Unlock()
			return
		}
		ack := false
		if p.Seq == g.expectIn {
			id, _ := IDOfBytes(p.Cemi)
			g.bus = append(g.bus, BusEntry{ID: id, Epoch: g.epoch, Seq: p.Seq, T: g.S.Now(), WireIdx: ev.Idx})
			g.expectIn++
			ack = true
		} else if p.Seq == g.expectIn-1 {
			ack = true
		}
		ch := g.channel
		g.mu.Unlock()
		if ack {
			g.send(&knxnet.TunnelRes{Channel: ch, SeqNumber: p.Seq}, spec.Parsed{OK: true, Service: spec.SvcTunnelRes, Channel: ch, Seq: p.Seq})
		}
	case spec.SvcTunnelRes:
		g.mu.Lock()
		if g.connected && p.Channel == g.channel && g.pending != nil && p.Seq == g.pending.Seq && p.Status == 0 && !g.pending.Acked {
			g.pending.Acked = true
			if g.ackCh != nil {
				close(g.ackCh)
				g.ackCh = nil
			}
		}
		g.mu.Unlock()
	}
}

// SendToClient sends one telegram towards the client, stop-and-wait: it
// repeats the request every Resend until acknowledged or Attempts are used up.
// It returns whether an acknowledgement was obtained.
func (g *Gateway) SendToClient(id uint32) bool {
	g.mu.Lock()
	if !g.connected {
		g.mu.Unlock()
		return false
	}
	e := &OutEntry{ID: id, Epoch: g.epoch, Seq: g.nextOut}
	g.out = append(g.out, *e)
	idx := len(g.out) - 1
	g.pending = e
	ch := g.channel
	ack := make(chan struct{})
	g.ackCh = ack
	g.mu.Unlock()
	req := func() *knxnet.TunnelReq { return &knxnet.TunnelReq{Channel: ch, SeqNumber: e.Seq, Payload: Ind(id)} }
	acked := false
	for a := 0; a < g.Attempts && !acked; a++ {
		g.mu.Lock()
		e.Copies++
		stale := g.pending != e
		g.mu.Unlock()
		if stale {
			break
		}
		g.send(req(), spec.Parsed{OK: true, Service: spec.SvcTunnelReq, Channel: ch, Seq: e.Seq})
		select {
		case <-ack:
			acked = true
		case <-time.After(g.Resend):
		}
	}
	if !acked {
		select {
		case <-ack:
			acked = true
		default:
		}
	}
	g.mu.Lock()
	if g.pending == e {
		g.pending = nil
		if acked {
			g.nextOut++
		} else {
			e.GaveUp = true
		}
	}
	g.out[idx] = *e
	g.mu.Unlock()
	return acked
}
