#!/bin/bash
# usage: tools/run_seeded.sh <seedID> [tier] [check-id...]
# Applies /verif/seeded/<seedID>/patch.diff to /repo's working tree, runs the
# named checks (default: the property the seed breaks), prints their verdicts
# and always restores /repo afterwards. Nothing is committed to /repo.
set -u
cd "$(dirname "$0")/.."
SEED="$1"; TIER="${2:-quick}"; shift; shift || true
PROP=$(python3 -c "import json;print(json.load(open('seeded/$SEED/meta.json'))['breaks_property'])")
CHECKS="${*:-$PROP}"
if ! git -C /repo diff --quiet; then echo "refusing: /repo working tree is dirty"; exit 3; fi
trap 'git -C /repo checkout -- . ; git -C /repo clean -fdq' EXIT
git -C /repo apply "$(pwd)/seeded/$SEED/patch.diff" || { echo "patch does not apply"; exit 3; }
for c in $CHECKS; do
  start=$(date +%s)
  out=$(./check.sh "$c" "$TIER" 2>&1); rc=$?
  end=$(date +%s)
  v=$(echo "$out" | grep -c '^VIOLATION')
  echo "SEED=$SEED check=$c tier=$TIER exit=$rc violations=$v wall=$((end-start))s"
  echo "$out" | grep -A1 '^VIOLATION' | head -6
done
