#!/bin/bash
# usage: tools/run_all_seeded.sh [tier] [seedID...]  — runs every seeded change against the check of the property it breaks
cd "$(dirname "$0")/.."
TIER="${1:-quick}"; shift || true
SEEDS="${*:-$(ls seeded | grep -E '^C[0-9]+[a-z]$')}"
for s in $SEEDS; do
  p=${s:0:3}; id=$(echo $p | tr 'A-Z' 'a-z')
  [ -d monitors/$id ] || { echo "SEED=$s check=$p not built"; continue; }
  tools/run_seeded.sh $s $TIER 2>&1 | grep -E '^SEED=|^  \[' | head -2
done
