#!/bin/bash
# usage: tools/sweep.sh <tier> <seed...>   — runs every check once per seed on the current tree; prints one line per run
cd "$(dirname "$0")/.."
TIER="$1"; shift
for seed in "$@"; do
  for c in C01 C02 C03 C04 C05 C06 C07 C08 C09 C10 C11 C12 C13 C14 C15 C16 C17 C18 C19 C20; do
    start=$(date +%s)
    out=$(VERIF_SEED=$seed ./check.sh $c $TIER 2>&1); rc=$?
    end=$(date +%s)
    v=$(echo "$out" | grep -c '^VIOLATION')
    k=$(echo "$out" | grep -c '^KNOWN-FINDING')
    echo "seed=$seed $c exit=$rc violations=$v known=$k wall=$((end-start))s $(echo "$out" | grep -m1 -A1 '^VIOLATION' | tail -1 | cut -c1-160)"
  done
done
