#!/bin/bash
# usage: tools/loadtest.sh <burners> <check...>  — runs the quick tier of the given checks while <burners> busy loops
# compete for the CPUs (the checks may be run in parallel with other work; they must stay silent then, too)
cd "$(dirname "$0")/.."
N="$1"; shift
pids=""
for i in $(seq 1 $N); do ( while :; do :; done ) & pids="$pids $!"; done
trap "kill $pids 2>/dev/null" EXIT
for c in "$@"; do
  start=$(date +%s)
  out=$(./check.sh $c quick 2>&1); rc=$?
  end=$(date +%s)
  echo "load=$N $c exit=$rc violations=$(echo "$out" | grep -c '^VIOLATION') wall=$((end-start))s $(echo "$out" | grep -m1 -A1 '^VIOLATION' | tail -1 | cut -c1-200)"
done
