#!/bin/bash
# runs each revert-of-fix patch against the check of its property
cd "$(dirname "$0")/.."
TIER="${1:-quick}"
for d in seeded/reverts/*/; do
  id=$(basename $d); p=${id:0:3}; m=$(echo $p | tr 'A-Z' 'a-z')
  [ -d monitors/$m ] || { echo "REVERT=$id check=$p not built"; continue; }
  if ! git -C /repo diff --quiet; then echo "dirty /repo"; exit 3; fi
  git -C /repo apply "$(pwd)/$d/patch.diff" || { echo "REVERT=$id does not apply"; continue; }
  out=$(./check.sh $p $TIER 2>&1); rc=$?
  git -C /repo checkout -- . ; git -C /repo clean -fdq
  echo "REVERT=$id check=$p exit=$rc violations=$(echo "$out" | grep -c '^VIOLATION')"
  echo "$out" | grep -A1 '^VIOLATION' | sed -n 2p | cut -c1-220
done
