#!/usr/bin/env python3
"""confirm_seed.py <ID> [<prop>]: confirms a candidate seeded change from /tmp/wt/out/<ID>
in a scratch worktree (outside /repo and /verif): builds, existing suite passes with the
patch, demo passes on the pristine tree, demo fails with the patch. On success copies it
to /verif/seeded/<ID>/ with meta.json. The scratch worktree is removed afterwards."""
import json, os, re, shutil, subprocess, sys
ID = sys.argv[1]
prop = sys.argv[2] if len(sys.argv) > 2 else ID[:3]
src = '/tmp/wt/out/' + ID
wt = '/tmp/wt/confirm_' + ID
env = dict(os.environ, GOFLAGS='-mod=mod', GOPROXY='off', GOSUMDB='off', GOTOOLCHAIN='local')
def sh(cmd, cwd=None, timeout=900):
    p = subprocess.run(cmd, shell=True, cwd=cwd, env=env, capture_output=True, text=True, timeout=timeout)
    return p.returncode, (p.stdout + p.stderr)[-3000:]
subprocess.run('git -C /repo worktree remove --force %s' % wt, shell=True, capture_output=True)
rc, out = sh('git -C /repo worktree add --detach %s HEAD' % wt)
assert rc == 0, out
res = {'id': ID, 'property': prop}
try:
    demo = open(src + '/demo_test.go').read()
    pkg = re.search(r'^package\s+(\w+)', demo, re.M).group(1)
    base = pkg[:-5] if pkg.endswith('_test') else pkg
    d = {'knx': 'knx', 'knxnet': 'knx/knxnet', 'cemi': 'knx/cemi', 'dpt': 'knx/dpt', 'util': 'knx/util'}[base]
    demo_path = '%s/zz_seed_demo_test.go' % d
    tests = re.findall(r'^func (Test\w+)\(', demo, re.M)
    runre = '^(' + '|'.join(tests) + ')$'
    res['demo_path'] = demo_path; res['demo_tests'] = tests
    shutil.copy(src + '/demo_test.go', os.path.join(wt, demo_path))
    rc, out = sh("go test -vet=off -count=1 -run '%s' ./%s" % (runre, d), cwd=wt)
    res['demo_pristine_rc'] = rc; res['demo_pristine_tail'] = out[-600:]
    os.remove(os.path.join(wt, demo_path))
    rc, out = sh('git apply %s/patch.diff' % src, cwd=wt)
    res['apply_rc'] = rc
    assert rc == 0, out
    rc, out = sh('go build ./... && go build -tags verif ./...', cwd=wt); res['build_rc'] = rc; res['build_tail'] = out[-400:]
    rc, out = sh('go test -vet=off -count=1 -timeout 25m ./...', cwd=wt); res['suite_patched_rc'] = rc; res['suite_tail'] = out[-600:]
    shutil.copy(src + '/demo_test.go', os.path.join(wt, demo_path))
    rc, out = sh("go test -vet=off -count=1 -run '%s' ./%s" % (runre, d), cwd=wt)
    res['demo_patched_rc'] = rc; res['demo_patched_tail'] = out[-1200:]
    res['confirmed'] = (res['demo_pristine_rc'] == 0 and res['build_rc'] == 0 and res['suite_patched_rc'] == 0 and res['demo_patched_rc'] != 0)
finally:
    subprocess.run('git -C /repo worktree remove --force %s' % wt, shell=True, capture_output=True)
print(json.dumps({k: v for k, v in res.items() if not k.endswith('_tail')}))
if res.get('confirmed'):
    dst = '/verif/seeded/' + ID
    os.makedirs(dst, exist_ok=True)
    for f in ('patch.diff', 'demo_test.go', 'notes.md'):
        shutil.copy(src + '/' + f, dst + '/' + f)
    meta = {'id': ID, 'breaks_property': prop, 'demo_intended_path': res['demo_path'], 'demo_tests': res['demo_tests'],
            'needs_to_manifest': 'see notes.md (written by the independent sub-agent that produced the change)',
            'confirmed_by': 'tools/confirm_seed.py in a scratch worktree of /repo HEAD: demo passes pristine (rc %d), builds with and without tag verif, existing suite passes with the patch (rc %d), demo fails with the patch (rc %d)' % (res['demo_pristine_rc'], res['suite_patched_rc'], res['demo_patched_rc']),
            'demo_patched_output_tail': res['demo_patched_tail'][-800:]}
    json.dump(meta, open(dst + '/meta.json', 'w'), indent=1)
else:
    print('NOT CONFIRMED', json.dumps(res)[:3000])
