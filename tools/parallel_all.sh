#!/bin/bash
# runs the quick tier of all 20 checks at the same time (worst-case contention) and prints one line per check
cd "$(dirname "$0")/.."
mkdir -p /tmp/wt/par
for c in C01 C02 C03 C04 C05 C06 C07 C08 C09 C10 C11 C12 C13 C14 C15 C16 C17 C18 C19 C20; do
  ( start=$(date +%s); out=$(./check.sh $c quick 2>&1); rc=$?; end=$(date +%s);
    echo "parallel $c exit=$rc violations=$(echo "$out" | grep -c '^VIOLATION') wall=$((end-start))s $(echo "$out" | grep -m1 -A1 '^VIOLATION' | tail -1 | cut -c1-220)" > /tmp/wt/par/$c.txt ) &
done
wait
cat /tmp/wt/par/*.txt
