#!/bin/bash
# usage: tools/coverage.sh [tier] [ID...]
# Builds every monitor with statement coverage of the library (go build -cover
# -coverpkg=<library>/...), runs the tier once, and writes which library
# functions the monitors' workloads actually executed:
#   coverage/<ID>.func.txt   per check
#   coverage/ALL.func.txt    merged over all checks
#   coverage/UNREACHED.txt   library functions no monitor executed completely
# The verdicts of these runs are not used (coverage builds are slower, which
# shifts timing); this is a map of what the workloads reach, nothing more.
cd "$(dirname "$0")/.."
export GOFLAGS=-mod=mod GOPROXY=off GOSUMDB=off GOTOOLCHAIN=local CGO_ENABLED=1
export VERIF_DIR="$(pwd)"
TIER="${1:-quick}"; shift
IDS="$*"
[ -z "$IDS" ] && IDS="C01 C02 C03 C04 C05 C06 C07 C08 C09 C10 C11 C12 C13 C14 C15 C16 C17 C18 C19 C20"
SCRATCH=$(mktemp -d /tmp/verifcov.XXXXXX)
mkdir -p coverage
KEEP=$(mktemp -d /tmp/verifcov.keep.XXXXXX)
# the coverage runs must not overwrite the committed evidence / replay files
cp -a evidence "$KEEP/evidence"
dirs=""
for ID in $IDS; do
  id=$(echo "$ID" | tr 'A-Z' 'a-z')
  RACEFLAG=""; [ -f "monitors/$id/RACE" ] && RACEFLAG="-race"
  mkdir -p "$SCRATCH/$id"
  if ! go build -tags verif $RACEFLAG -cover -covermode=atomic -coverpkg=github.com/vapourismo/knx-go/...,verif/... -o "$SCRATCH/mon_$id" "./monitors/$id" 2> "$SCRATCH/$id.build.log"; then
    echo "$ID build failed"; head -5 "$SCRATCH/$id.build.log"; continue
  fi
  GOCOVERDIR="$SCRATCH/$id" "$SCRATCH/mon_$id" "$TIER" > "$SCRATCH/$id.out" 2>&1
  echo "$ID exit=$? $(grep -c '^VIOLATION' "$SCRATCH/$id.out") violation lines (not judged here)"
  go tool covdata func -i="$SCRATCH/$id" 2>/dev/null | grep '^github.com/vapourismo' | grep -v 'verif_hooks.go' > "coverage/$ID.func.txt"
  dirs="$dirs,$SCRATCH/$id"
  rm -f "$SCRATCH/mon_$id"
done
dirs="${dirs#,}"
go tool covdata func -i="$dirs" 2>/dev/null | grep '^github.com/vapourismo' | grep -v 'verif_hooks.go' > coverage/ALL.func.txt
grep -v '100.0%' coverage/ALL.func.txt | grep -v '^total' > coverage/UNREACHED.txt
go tool covdata textfmt -i="$dirs" -o "$SCRATCH/all.cov" 2>/dev/null
# statement blocks of the library that no monitor executed: file:startline.col,endline.col
grep '^github.com/vapourismo' "$SCRATCH/all.cov" | grep -v verif_hooks.go | awk '$3==0 {print $1}' | sort -t: -k1,1 -k2,2n > coverage/UNCOVERED_BLOCKS.txt
go tool covdata percent -i="$dirs" 2>/dev/null | grep 'vapourismo' > coverage/PACKAGES.txt
rm -rf evidence; mv "$KEEP/evidence" evidence
rm -rf "$SCRATCH" "$KEEP"
cat coverage/PACKAGES.txt
wc -l coverage/UNREACHED.txt
